//! C04 — Engine indices and exchange names translate both ways without mix-ups.
//!
//! E-SEQ over configurations (menu A = C11's 8-definition menu: 3 exchanges, shared asset names, `BTCUSDT` on two
//! exchanges, Kraken calling btc `XBT`; menu B = `menu_b()`: names that differ between exchanges only by case,
//! mixed case, a name that is a prefix of another, four instruments on one exchange), five layers, all on the
//! real code:
//!
//! * **map**      every insertion order of every subset (size <= N) -> `IndexedInstruments` ->
//!                `generate_execution_instrument_map` for every exchange of the menu -> exhaustive sweep of every
//!                global index (own, foreign, out of range) and every name (own, foreign, unknown) through
//!                `find_*`.
//! * **indexer**  per distinct set x exchange: `AccountEventIndexer::order_request` for every (exchange index,
//!                instrument index); every inbound kind (balance, order key, trade, order snapshot in 12 states
//!                incl. the three key-carrying `ApiError`s, cancel response, full snapshot, `account_event`
//!                wrapper - also around a full snapshot -, client error) for every (exchange id, instrument name,
//!                asset name) of the pools; full snapshots whose wrapper / snapshot / inner order keys disagree.
//! * **manager**  per distinct set x exchange (E-ENV): the real `ExecutionManager::run` polled by hand on a paused
//!                current-thread runtime with a recording stub `ExecutionClient`; one open and one cancel for
//!                every instrument index (own / foreign / out of range) and a mis-addressed exchange index; the
//!                request seen by the client and the response event sent back are compared with the definitions.
//!                Then TWO requests through one manager: every ordered pair of own instruments x {open,cancel}^2 x
//!                {same, distinct client order id} x {sequential, queued together} - a translation must not depend
//!                on what the manager translated before.
//! * **stream**   per distinct set x exchange (E-ENV): the real `ExecutionManager::init` (client snapshot + indexed,
//!                reconnecting account stream, merged) polled by hand; the stub's account stream carries one event
//!                of every kind for every pooled name and own-named events tagged with a foreign exchange id; the
//!                delivered indexed events must be exactly the own-named ones, under the right indices. A second
//!                run uses a client that answers the snapshot request in another order than it was asked, with a
//!                distinct balance per asset and an open order per instrument: every entry of the initial snapshot
//!                must land on the entity it names.
//! * **applied**  per distinct set x exchange: own-name balance / order / trade events, a full account snapshot
//!                (names descending, distinct balances, one order per instrument) and a cancel response are indexed
//!                and applied with `EngineState::update_from_account`; the state is read back *by internal name*.
//!
//! Second hardening round: NEAR-MISS spellings of every menu name (case, separators, blanks, one character more or
//! less - `near_misses`) through the map's name lookups and the single-name inbound kinds; own names under EVERY
//! `ExchangeId` there is (sibling products of one venue, `Simulated`, `Other` - `ALL_IDS`); a third, LARGE menu ("L":
//! 310 instruments over 72 assets, global indices beyond 255) swept as one configuration through every layer.
//!
//! Ground truth comes from the *definitions* (exchange name of an instrument / asset) and from
//! `IndexedInstruments::find_*_index(exchange, internal name)` for "the engine index of that entity" (that
//! table is C11's subject). Rules, each from a clause of the statement:
//!   own-rejected / own-gives-other-entity   "translating ... to that exchange's own name and back yields the
//!                                            original index"
//!   foreign-translates                       "only indices belonging to that exchange translate at all"
//!   order-request/*, manager/*               "an order request for an instrument reaches the exchange client
//!                                            addressed to exactly that instrument's exchange name"
//!   inbound/*, applied/*                     "every account event (balance, order, trade) is applied to the
//!                                            instrument and asset it names"
//! A layer is judged only where the layer below it was found correct for that (set, exchange), so that one
//! defect is reported where it lives and not once per layer (`layers_not_judged_because_lower_layer_failed`).
//! What happens to a request that cannot be translated (error, panic, drop) is not prescribed: the only demand is
//! that the client never sees it.
//!
//! Soundness round (what the statement leaves open is accepted):
//!   * a FULL SNAPSHOT is a collection. Entries that do not name this exchange's entities must not translate; whether
//!     the snapshot is then refused as a whole or delivered without them is free, as is the order of the entries
//!     (`judge_snapshot`: every delivered entry must be the right translation of an input entry; a snapshot whose
//!     entries are all this exchange's - and whose exchange ids are - must translate completely);
//!   * a REJECTION inside an order snapshot / cancel response / client error that names an asset or instrument that
//!     is not this exchange's must not be turned into an index: the event may be refused, or delivered with the
//!     rejection in a form that carries no key (`keyless`);
//!   * an index -> name lookup may refuse a foreign / out-of-range index by an error or by a panic (`attempt`).

use super::c11::{Def, EX, Rec, Stub, StubCfg, StubScript, Viol, build_indexed, build_state, guarded, install_quiet_hook, menu, roles};
use super::common::{strategy_id, t_plus};
use crate::core::{Ctx, Distinct, Outcome, Samples};
use crate::explore::env::{flag_waker, paused_rt, poll_quiesce};
use barter::execution::{AccountStreamEvent, manager::ExecutionManager, request::ExecutionRequest};
use barter_execution::{
    AccountEvent, AccountEventKind, AccountSnapshot, InstrumentAccountSnapshot,
    balance::{AssetBalance, Balance},
    client::ExecutionClient,
    error::{ApiError, ClientError, ConnectivityError, OrderError},
    indexer::AccountEventIndexer,
    map::{ExecutionInstrumentMap, generate_execution_instrument_map},
    order::{
        Order, OrderEvent, OrderKey, OrderKind, TimeInForce,
        id::{ClientOrderId, OrderId},
        request::{RequestCancel, RequestOpen},
        state::{ActiveOrderState, Cancelled, InactiveOrderState, Open, OrderState},
    },
    trade::{AssetFees, Trade, TradeId},
};
use barter_instrument::{
    Side, Underlying,
    asset::{Asset, AssetIndex, ExchangeAsset, QuoteAsset, name::{AssetNameExchange, AssetNameInternal}},
    exchange::{ExchangeId, ExchangeIndex},
    index::IndexedInstruments,
    instrument::{Instrument, InstrumentIndex, kind::InstrumentKind, name::{InstrumentNameExchange, InstrumentNameInternal}, quote::InstrumentQuoteAsset},
};
use barter_integration::{channel::{Tx, mpsc_unbounded}, snapshot::Snapshot};
use itertools::Itertools;
use rayon::prelude::*;
use rust_decimal::Decimal;
use serde_json::{Value, json};
use std::{
    collections::{BTreeMap, BTreeSet},
    fmt::Debug,
    sync::{Arc, Mutex, atomic::{AtomicU64, Ordering}},
    task::Poll,
    time::Duration,
};

// ---------------------------------------------------------------------------------------------------------
// ground truth from the definitions
// ---------------------------------------------------------------------------------------------------------

#[derive(Debug, Clone)]
struct Ent<I> {
    idx: I,
    ex: ExchangeId,
    name_ex: String,
    name_int: String,
}

#[derive(Debug, Clone)]
struct Truth {
    exchanges: Vec<(ExchangeIndex, ExchangeId)>,
    instruments: Vec<Ent<InstrumentIndex>>,
    assets: Vec<Ent<AssetIndex>>,
}

impl Truth {
    fn new(defs: &[&Def], ix: &IndexedInstruments) -> Self {
        let exchanges = defs.iter().map(|d| d.exchange).sorted().dedup()
            .map(|x| (ix.find_exchange_index(x).expect("harness: C11 index table"), x)).collect();
        let instruments = defs.iter().map(|d| Ent {
            idx: ix.find_instrument_index(d.exchange, &d.name_internal).expect("harness: C11 index table"),
            ex: d.exchange,
            name_ex: d.name_exchange.name().to_string(),
            name_int: d.name_internal.name().to_string(),
        }).collect();
        let assets = defs.iter()
            .flat_map(|d| roles(d).into_iter().map(move |(_, asset)| (d.exchange, asset)))
            .sorted().dedup()
            .map(|(ex, asset)| Ent {
                idx: ix.find_asset_index(ex, &asset.name_internal).expect("harness: C11 index table"),
                ex,
                name_ex: asset.name_exchange.name().to_string(),
                name_int: asset.name_internal.name().to_string(),
            }).collect();
        Self { exchanges, instruments, assets }
    }
    fn ex_index(&self, x: ExchangeId) -> Option<ExchangeIndex> {
        self.exchanges.iter().find(|(_, id)| *id == x).map(|(i, _)| *i)
    }
    fn inst(&self, x: ExchangeId, name: &str) -> Option<InstrumentIndex> {
        self.instruments.iter().find(|e| e.ex == x && e.name_ex == name).map(|e| e.idx)
    }
    fn asset(&self, x: ExchangeId, name: &str) -> Option<AssetIndex> {
        self.assets.iter().find(|e| e.ex == x && e.name_ex == name).map(|e| e.idx)
    }
    fn inst_name(&self, x: ExchangeId, idx: usize) -> Option<InstrumentNameExchange> {
        self.instruments.iter().find(|e| e.ex == x && e.idx.index() == idx).map(|e| InstrumentNameExchange::new(e.name_ex.as_str()))
    }
    fn asset_name(&self, x: ExchangeId, idx: usize) -> Option<AssetNameExchange> {
        self.assets.iter().find(|e| e.ex == x && e.idx.index() == idx).map(|e| AssetNameExchange::new(e.name_ex.as_str()))
    }
}

/// Name pools: every exchange name that occurs anywhere in the menu (so own and foreign ones) plus an unknown.
/// `*_near`: NEAR MISSES of the menu names - spellings that differ from a menu name only by case, by a separator
/// (`-`, `_`, `/`, blank removed / exchanged / inserted), by surrounding blanks or by one character at either end.
/// A name is an opaque key, so a near miss that is not itself a name of the exchange must not translate. The near
/// pools are swept through the map's name lookups and the single-name inbound kinds only (a lookup that
/// normalises names shows there); the main pools feed the combinatorial sweeps.
struct Pools {
    inst: Vec<InstrumentNameExchange>,
    asset: Vec<AssetNameExchange>,
    inst_near: Vec<InstrumentNameExchange>,
    asset_near: Vec<AssetNameExchange>,
}

fn near_misses(name: &str) -> Vec<String> {
    const SEPS: [char; 4] = ['-', '_', '/', ' '];
    let mut v = vec![
        name.to_lowercase(),
        name.to_uppercase(),
        name.chars().map(|c| if c.is_uppercase() { c.to_ascii_lowercase() } else { c.to_ascii_uppercase() }).collect(),
        name.chars().filter(|c| !SEPS.contains(c)).collect(),
        format!(" {name}"),
        format!("{name} "),
        format!("{name}X"),
        format!("X{name}"),
    ];
    for (from, to) in [('-', '_'), ('_', '-'), ('/', '-'), ('/', '_'), ('-', '/'), ('_', '/')] {
        v.push(name.replace(from, &to.to_string()));
    }
    let n = name.chars().count();
    if n > 1 {
        v.push(name.chars().take(n - 1).collect());
        v.push(name.chars().skip(1).collect());
    }
    for at in [1usize, 3, 4] {
        if n > at {
            for sep in ['-', '_', '/'] {
                let (a, b): (String, String) = (name.chars().take(at).collect(), name.chars().skip(at).collect());
                v.push(format!("{a}{sep}{b}"));
            }
        }
    }
    v.retain(|s| !s.is_empty() && s != name);
    v
}

fn pools(menu: &[Def]) -> Pools {
    let mut inst: Vec<String> = menu.iter().map(|d| d.name_exchange.name().to_string()).sorted().dedup().collect();
    inst.push("NOPE".into());
    let mut asset: Vec<String> = menu.iter().flat_map(|d| roles(d).into_iter().map(|(_, a)| a.name_exchange.name().to_string())).sorted().dedup().collect();
    asset.push("NOPE".into());
    let near = |main: &[String]| -> Vec<String> { main.iter().flat_map(|n| near_misses(n)).filter(|s| !main.contains(s)).sorted().dedup().collect() };
    Pools {
        inst_near: near(&inst).iter().map(|s| InstrumentNameExchange::new(s.as_str())).collect(),
        asset_near: near(&asset).iter().map(|s| AssetNameExchange::new(s.as_str())).collect(),
        inst: inst.iter().map(|s| InstrumentNameExchange::new(s.as_str())).collect(),
        asset: asset.iter().map(|s| AssetNameExchange::new(s.as_str())).collect(),
    }
}

/// Every `ExchangeId` there is: an account event / order key / snapshot is this exchange's only if it carries exactly
/// this exchange's id - not a sibling product of the same venue (`binance_futures_usd` for a `binance_spot` link), not
/// one of the ids the library treats specially elsewhere (`Mock`, `Simulated`, `Other`).
const ALL_IDS: [ExchangeId; 42] = {
    use ExchangeId::*;
    [
        Other, Simulated, Mock, BinanceFuturesCoin, BinanceFuturesUsd, BinanceOptions, BinancePortfolioMargin, BinanceSpot, BinanceUs,
        Bitazza, Bitfinex, Bitflyer, Bitget, Bitmart, BitmartFuturesUsd, Bitmex, Bitso, Bitstamp, Bitvavo, Bithumb, BybitPerpetualsUsd,
        BybitSpot, Cexio, Coinbase, CoinbaseInternational, Cryptocom, Deribit, GateioFuturesBtc, GateioFuturesUsd, GateioOptions,
        GateioPerpetualsBtc, GateioPerpetualsUsd, GateioSpot, Gemini, Hitbtc, Htx, Kraken, Kucoin, Liquid, Mexc, Okx, Poloniex,
    ]
};

/// Second menu ("B", local to this module): the same three exchanges, spot only, but with the name shapes the
/// C11 menu ("A") does not have: exchange names that differ between exchanges ONLY BY CASE (`BTCUSDT` /
/// `btcusdt` / `BtcUsdt`, assets `BTC` / `btc` / `Btc`), mixed-case names, one name a prefix of another on
/// the same exchange (`BTCUSD` / `BTCUSDT`), and four instruments on one exchange. A name is an opaque,
/// case-sensitive key: `btcusdt` is Kraken's instrument and not BinanceSpot's.
fn menu_b() -> Vec<Def> {
    use ExchangeId::*;
    let a = |internal: &str, exchange: &str| Asset::new(internal, exchange);
    let spot = |ex: ExchangeId, internal: &str, name: &str, base: Asset, quote: Asset| -> Def {
        Instrument::new(ex, internal, name, Underlying::new(base, quote), InstrumentQuoteAsset::UnderlyingQuote, InstrumentKind::Spot, None)
    };
    vec![
        spot(BinanceSpot, "btc_usdt.b", "BTCUSDT", a("btc", "BTC"), a("usdt", "USDT")),
        spot(BinanceSpot, "btc_usd.b", "BTCUSD", a("btc", "BTC"), a("usd", "USD")),
        spot(BinanceSpot, "eth_btc.b", "ETHBTC", a("eth", "ETH"), a("btc", "BTC")),
        spot(BinanceSpot, "eth_usdt.b", "ETHUSDT", a("eth", "ETH"), a("usdt", "USDT")),
        spot(Kraken, "btc_usdt.k", "btcusdt", a("btc", "btc"), a("usdt", "usdt")),
        spot(Kraken, "eth_usdt.k", "EthUsdt", a("eth", "Eth"), a("usdt", "usdt")),
        spot(Okx, "btc_usdt.o", "BtcUsdt", a("btc", "Btc"), a("usdt", "Usdt")),
        spot(Okx, "btc_usd.o", "btcusd", a("btc", "Btc"), a("usd", "usd")),
    ]
}

/// Third menu ("L", local to this module): a LARGE collection - 310 spot instruments (110 / 100 / 100) over 72 assets
/// (24 per exchange) on the three exchanges, so that global indices pass 255 and every exchange's own indices start
/// far from 0. Okx writes its first 30 instruments exactly like BinanceSpot and shares its asset spellings; Kraken
/// has its own spellings. It is swept as ONE configuration (every index, every name), not by subsets.
fn menu_large() -> Vec<Def> {
    use ExchangeId::*;
    let spot = |ex: ExchangeId, internal: String, name: String, base: Asset, quote: Asset| -> Def {
        Instrument::new(ex, internal.as_str(), name.as_str(), Underlying::new(base, quote), InstrumentQuoteAsset::UnderlyingQuote, InstrumentKind::Spot, None)
    };
    let pairs: Vec<(usize, usize)> = (0..24usize).flat_map(|i| ((i + 1)..24).map(move |j| (i, j))).collect();
    let mut v = Vec::new();
    for (ex, tag, count) in [(BinanceSpot, "b", 110usize), (Kraken, "k", 100), (Okx, "o", 100)] {
        // instrument k of an exchange uses pair (7k mod 276): internal-name order differs from pair order
        for k in 0..count {
            let (i, j) = pairs[(k * 7) % pairs.len()];
            let asset = |n: usize| match ex {
                Kraken => Asset::new(format!("a{n:02}").as_str(), format!("XA{n:02}").as_str()),
                _ => Asset::new(format!("a{n:02}").as_str(), format!("A{n:02}").as_str()),
            };
            let name = match ex {
                BinanceSpot => format!("A{i:02}A{j:02}"),
                Kraken => format!("A{i:02}/A{j:02}"),
                _ if k < 30 => format!("A{i:02}A{j:02}"),
                _ => format!("A{i:02}-A{j:02}"),
            };
            v.push(spot(ex, format!("i{k:03}.{tag}"), name, asset(i), asset(j)));
        }
    }
    v
}

/// The menus this module sweeps: (tag used in replay cases, definitions).
fn menus() -> Vec<(&'static str, Vec<Def>)> {
    vec![("A", menu()), ("B", menu_b())]
}

/// Pools of the large menu: (every name - for the map's lookups, which are linear; a sample of 24 definitions across
/// the three exchanges incl. a spelling shared by BinanceSpot and Okx - for the combinatorial sweeps above the map).
fn pools_large(menu: &[Def]) -> (Pools, Pools) {
    let mut full = pools(menu);
    let sample: Vec<Def> = menu.iter().enumerate().filter(|(k, _)| k % 13 == 0).map(|(_, d)| d.clone()).collect();
    let deep = pools(&sample);
    // near misses of the sampled names only (the full list would square the sweep for no new spelling shape)
    full.inst_near = deep.inst_near.iter().filter(|n| !full.inst.contains(n)).cloned().collect();
    full.asset_near = deep.asset_near.iter().filter(|n| !full.asset.contains(n)).cloned().collect();
    (full, deep)
}

/// The large menu as one configuration x exchange `xp` (all layers; the manager layer with single requests only).
fn eval_large(xp: usize) -> Option<Deep> {
    let menu = menu_large();
    let (full, deep) = pools_large(&menu);
    let set: Vec<usize> = (0..menu.len()).collect();
    eval_deep_with(&menu, &full, &deep, &set, xp, false)
}

/// The one comparison rule of this module. `want = Some(v)`: the input names entities of this exchange and must
/// translate to exactly `v`; `want = None`: the input names something foreign / unknown and must not translate.
fn judge<T: PartialEq + Debug, E: Debug>(kind: &str, want: Option<T>, got: Result<T, E>, input: impl Fn() -> String, out: &mut Vec<Viol>) {
    match (want, got) {
        (Some(w), Ok(g)) if w == g => {}
        (None, Err(_)) => {}
        (Some(w), Ok(g)) => out.push((format!("C04/{kind}/own-gives-other-entity"), format!("{}: got {g:?}, expected {w:?}", input()))),
        (Some(w), Err(e)) => out.push((format!("C04/{kind}/own-rejected"), format!("{}: got Err({e:?}), expected {w:?}", input()))),
        (None, Ok(g)) => out.push((format!("C04/{kind}/foreign-translates"), format!("{}: got {g:?}, expected an error (not an entity of this exchange)", input()))),
    }
}

/// What a translated full account snapshot SAYS, entry by entry (a multiset; the order of the entries of a
/// snapshot is not part of the statement): every balance, every instrument entry, every order under its entry.
fn snapshot_facts(s: &AccountSnapshot) -> Vec<String> {
    let mut v: Vec<String> = s.balances.iter().map(|b| format!("balance {b:?}")).collect();
    for i in &s.instruments {
        v.push(format!("instrument {:?}", i.instrument));
        v.extend(i.orders.iter().map(|o| format!("order under {:?}: {o:?}", i.instrument)));
    }
    v.sort();
    v
}

/// Multiset inclusion of sorted fact lists.
fn facts_within(got: &[String], want: &[String]) -> bool {
    let mut rest: Vec<&String> = want.iter().collect();
    got.iter().all(|g| rest.iter().position(|w| *w == g).map(|p| { rest.swap_remove(p); }).is_some())
}

/// Rule for a full account snapshot (a COLLECTION of entries). `exchange_ok`: every exchange id on the snapshot
/// itself (and on its wrapper) is this exchange's - otherwise nothing may translate. `own_part`: the translation of
/// exactly those entries that name entities of this exchange (with this exchange's index on the snapshot).
/// `complete`: every entry names entities of this exchange and the parts agree with one another.
///   * complete   -> the snapshot must translate, to exactly the entries of `own_part` (in any order);
///   * otherwise  -> the entries that do not name this exchange's entities must not translate; whether the snapshot is
///                   then refused as a whole or translated without them (or without further entries) is not
///                   prescribed by the statement - but every entry that IS translated must be the right one.
/// `sig_extra`: signature cause when a translated entry is not justified by `own_part`.
fn judge_snapshot<E: Debug>(kind: &str, exchange_ok: bool, complete: bool, own_part: impl FnOnce() -> AccountSnapshot, sig_extra: &str,
    got: Result<AccountSnapshot, E>, input: impl Fn() -> String, out: &mut Vec<Viol>) {
    match (exchange_ok, got) {
        (false, Err(_)) => {}
        (false, Ok(g)) => out.push((format!("C04/{kind}/foreign-translates"), format!("{}: got {g:?}, expected an error (not an entity of this exchange)", input()))),
        (true, Err(e)) if complete => out.push((format!("C04/{kind}/own-rejected"), format!("{}: got Err({e:?}), expected {:?}", input(), own_part()))),
        (true, Err(_)) => {}
        (true, Ok(g)) => {
            let w = own_part();
            let (gf, wf) = (snapshot_facts(&g), snapshot_facts(&w));
            if g.exchange != w.exchange || (complete && gf != wf) {
                out.push((format!("C04/{kind}/own-gives-other-entity"), format!("{}: got {g:?}, expected (entries in any order) {w:?}", input())));
            } else if !facts_within(&gf, &wf) {
                out.push((format!("C04/{kind}/{sig_extra}"), format!("{}: got {g:?}; only these entries name entities of this exchange (each may be translated or left out, nothing else): {w:?}", input())));
            }
        }
    }
}

/// One index -> name lookup. The statement demands that an index that is not this exchange's does not translate; HOW
/// it is refused (an error value or a panic - `ExecutionManager::run` itself panics on such a request) is not
/// prescribed, so a panic of the lookup counts as a refusal (and is a violation for an own index like any refusal).
fn attempt<T, E: Debug>(f: impl FnOnce() -> Result<T, E>) -> Result<T, String> {
    guarded(f).map_err(|p| format!("panic: {p}")).and_then(|r| r.map_err(|e| format!("{e:?}")))
}

/// An API error that carries no asset / instrument key.
fn keyless(e: &ApiError) -> bool {
    !matches!(e, ApiError::AssetInvalid(..) | ApiError::BalanceInsufficient(..) | ApiError::InstrumentInvalid(..))
}

// ---------------------------------------------------------------------------------------------------------
// layer "map"
// ---------------------------------------------------------------------------------------------------------

fn check_map(truth: &Truth, ix: &IndexedInstruments, x: ExchangeId, pools: &Pools, evals: &mut u64) -> (Vec<Viol>, Option<ExecutionInstrumentMap>) {
    let mut out = Vec::new();
    let built = guarded(|| generate_execution_instrument_map(ix, x));
    let Some(xi) = truth.ex_index(x) else {
        if matches!(built, Ok(Ok(_))) {
            out.push(("C04/map/built-for-absent-exchange".into(), format!("{x} has no instrument but a map was generated")));
        }
        return (out, None);
    };
    let map = match built {
        Ok(Ok(m)) => m,
        other => {
            out.push(("C04/map/cannot-build-for-defined-exchange".into(), format!("{x}: {:?}", other.map(|r| r.map(|_| ())))));
            return (out, None);
        }
    };
    let here = |what: &str| format!("map of {x} ({xi}), {what}");

    // exchange index <-> exchange id
    for e in 0..=truth.exchanges.len() {
        let want = (ExchangeIndex(e) == xi).then_some(x);
        judge("exchange/index-to-id", want, attempt(|| map.find_exchange_id(ExchangeIndex(e))), || here(&format!("find_exchange_id({e})")), &mut out);
        *evals += 1;
    }
    for y in ALL_IDS.iter() {
        let want = (*y == x).then_some(xi);
        judge("exchange/id-to-index", want, map.find_exchange_index(*y), || here(&format!("find_exchange_index({y})")), &mut out);
        *evals += 1;
    }
    // instruments: every global index (incl. one out of range), every pooled name
    for g in 0..=ix.instruments().len() {
        let want = truth.inst_name(x, g);
        judge("instrument/index-to-name", want, attempt(|| map.find_instrument_name_exchange(InstrumentIndex(g)).cloned()),
            || here(&format!("find_instrument_name_exchange({g}) [instrument {g} is {:?}]", truth.instruments.iter().find(|e| e.idx.index() == g).map(|e| (e.ex, e.name_ex.clone())))), &mut out);
        *evals += 1;
    }
    for n in pools.inst.iter().chain(&pools.inst_near) {
        let want = truth.inst(x, n.name());
        judge("instrument/name-to-index", want, map.find_instrument_index(n), || here(&format!("find_instrument_index({:?})", n.name())), &mut out);
        *evals += 1;
    }
    // assets
    for g in 0..=ix.assets().len() {
        let want = truth.asset_name(x, g);
        judge("asset/index-to-name", want, attempt(|| map.find_asset_name_exchange(AssetIndex(g)).cloned()),
            || here(&format!("find_asset_name_exchange({g}) [asset {g} is {:?}]", truth.assets.iter().find(|e| e.idx.index() == g).map(|e| (e.ex, e.name_ex.clone())))), &mut out);
        *evals += 1;
    }
    for n in pools.asset.iter().chain(&pools.asset_near) {
        let want = truth.asset(x, n.name());
        judge("asset/name-to-index", want, map.find_asset_index(n), || here(&format!("find_asset_index({:?})", n.name())), &mut out);
        *evals += 1;
    }
    // the name lists handed to the client at initialisation
    let got: BTreeSet<String> = map.exchange_instruments().map(|n| n.name().to_string()).collect();
    let want: BTreeSet<String> = truth.instruments.iter().filter(|e| e.ex == x).map(|e| e.name_ex.clone()).collect();
    if got != want || map.exchange_instruments().count() != want.len() {
        out.push(("C04/map/instrument-listing-wrong".into(), here(&format!("exchange_instruments() = {got:?}, expected {want:?}"))));
    }
    let got: BTreeSet<String> = map.exchange_assets().map(|n| n.name().to_string()).collect();
    let want: BTreeSet<String> = truth.assets.iter().filter(|e| e.ex == x).map(|e| e.name_ex.clone()).collect();
    if got != want || map.exchange_assets().count() != want.len() {
        out.push(("C04/map/asset-listing-wrong".into(), here(&format!("exchange_assets() = {got:?}, expected {want:?}"))));
    }
    (out, Some(map))
}

// ---------------------------------------------------------------------------------------------------------
// layer "indexer": generic event constructors (same shape for names and for indices)
// ---------------------------------------------------------------------------------------------------------

const N_API: usize = 7;
fn api_uses(v: usize) -> (bool, bool) {
    (v == 4 || v == 5, v == 6) // (carries an asset key, carries an instrument key)
}
fn api_error<A: Clone, I: Clone>(v: usize, asset: &A, inst2: &I) -> ApiError<A, I> {
    match v {
        0 => ApiError::RateLimit,
        1 => ApiError::OrderRejected("r".into()),
        2 => ApiError::OrderAlreadyCancelled,
        3 => ApiError::OrderAlreadyFullyFilled,
        4 => ApiError::AssetInvalid(asset.clone(), "x".into()),
        5 => ApiError::BalanceInsufficient(asset.clone(), "x".into()),
        _ => ApiError::InstrumentInvalid(inst2.clone(), "x".into()),
    }
}

/// Order states 0..5 carry no key; 5.. = OpenFailed(Rejected(api_error(v-5))).
const N_STATE: usize = 5 + N_API;
fn state_uses(v: usize) -> (bool, bool) {
    if v < 5 { (false, false) } else { api_uses(v - 5) }
}
fn order_state<A: Clone, I: Clone>(v: usize, asset: &A, inst2: &I) -> OrderState<A, I> {
    match v {
        0 => OrderState::active(Open { id: OrderId::new("o1"), time_exchange: t_plus(1), filled_quantity: Decimal::ZERO }),
        1 => OrderState::inactive(Cancelled { id: OrderId::new("o1"), time_exchange: t_plus(1) }),
        2 => OrderState::fully_filled(),
        3 => OrderState::expired(),
        4 => OrderState::inactive(OrderError::Connectivity(ConnectivityError::Timeout)),
        _ => OrderState::inactive(OrderError::Rejected(api_error(v - 5, asset, inst2))),
    }
}
/// Cancel results 0 = Ok, 1 = connectivity error, 2.. = Rejected(api_error(v-2)).
const N_CANCEL: usize = 2 + N_API;
fn cancel_uses(v: usize) -> (bool, bool) {
    if v < 2 { (false, false) } else { api_uses(v - 2) }
}
fn cancel_state<A: Clone, I: Clone>(v: usize, asset: &A, inst2: &I) -> Result<Cancelled, OrderError<A, I>> {
    match v {
        0 => Ok(Cancelled { id: OrderId::new("o1"), time_exchange: t_plus(1) }),
        1 => Err(OrderError::Connectivity(ConnectivityError::Timeout)),
        _ => Err(OrderError::Rejected(api_error(v - 2, asset, inst2))),
    }
}
fn key<E, I>(ex: E, inst: I, cid: &str) -> OrderKey<E, I> {
    OrderKey { exchange: ex, instrument: inst, strategy: strategy_id(), cid: ClientOrderId::new(cid) }
}
fn order<E, I, S>(ex: E, inst: I, cid: &str, state: S) -> Order<E, I, S> {
    Order {
        key: key(ex, inst, cid),
        side: Side::Sell,
        price: Decimal::from(101),
        quantity: Decimal::from(3),
        kind: OrderKind::Limit,
        time_in_force: TimeInForce::GoodUntilCancelled { post_only: true },
        state,
    }
}
fn trade<I>(inst: I) -> Trade<QuoteAsset, I> {
    Trade {
        id: TradeId::new("t1"),
        order_id: OrderId::new("o1"),
        instrument: inst,
        strategy: strategy_id(),
        time_exchange: t_plus(1),
        side: Side::Buy,
        price: Decimal::from(100),
        quantity: Decimal::ONE,
        fees: AssetFees::quote_fees(Decimal::new(1, 1)),
    }
}
fn balance<A>(asset: A, n: i64) -> AssetBalance<A> {
    AssetBalance { asset, balance: Balance::new(Decimal::from(9000 + n), Decimal::from(n)), time_exchange: t_plus(1) }
}
fn request_open() -> RequestOpen {
    RequestOpen { side: Side::Buy, price: Decimal::from(99), quantity: Decimal::from(2), kind: OrderKind::Limit, time_in_force: TimeInForce::ImmediateOrCancel }
}

fn check_indexer(truth: &Truth, ix: &IndexedInstruments, x: ExchangeId, map: &ExecutionInstrumentMap, pools: &Pools, outbound: bool, inbound: bool, evals: &mut u64) -> Vec<Viol> {
    let mut out = Vec::new();
    let xi = truth.ex_index(x).unwrap();
    let indexer = AccountEventIndexer::new(Arc::new(map.clone()));
    let here = |what: String| format!("indexer of {x} ({xi}), {what}");
    let ex_pool: Vec<ExchangeId> = truth.exchanges.iter().map(|(_, id)| *id).chain([ExchangeId::Mock]).collect();

    // ---- outbound: order_request for every (exchange index, instrument index), open and cancel
    for e in (0..=truth.exchanges.len()).filter(|_| outbound) {
        for g in 0..=ix.instruments().len() {
            let name = truth.inst_name(x, g);
            let want_key = (ExchangeIndex(e) == xi).then_some(()).and(name.clone());
            let open = OrderEvent { key: key(ExchangeIndex(e), InstrumentIndex(g), "c-open"), state: request_open() };
            let got = attempt(|| indexer.order_request(&open).map(|r| (r.key.exchange, r.key.instrument.clone(), r.key.strategy, r.key.cid, r.state)));
            let want = want_key.clone().map(|n| (x, n, strategy_id(), ClientOrderId::new("c-open"), request_open()));
            judge("order-request", want, got, || here(format!("order_request(open, exchange {e}, instrument {g})")), &mut out);
            let cancel = OrderEvent { key: key(ExchangeIndex(e), InstrumentIndex(g), "c-cancel"), state: RequestCancel { id: Some(OrderId::new("o9")) } };
            let got = attempt(|| indexer.order_request(&cancel).map(|r| (r.key.exchange, r.key.instrument.clone(), r.key.strategy, r.key.cid, r.state)));
            let want = want_key.map(|n| (x, n, strategy_id(), ClientOrderId::new("c-cancel"), RequestCancel { id: Some(OrderId::new("o9")) }));
            judge("order-request", want, got, || here(format!("order_request(cancel, exchange {e}, instrument {g})")), &mut out);
            *evals += 2;
        }
    }

    // ---- inbound
    if !inbound {
        return out;
    }
    let ti = |n: &InstrumentNameExchange| truth.inst(x, n.name());
    let ta = |n: &AssetNameExchange| truth.asset(x, n.name());
    for (k, a) in pools.asset.iter().chain(&pools.asset_near).enumerate() {
        let want = ta(a).map(|i| balance(i, k as i64));
        judge("inbound/balance", want, indexer.asset_balance(balance(a.clone(), k as i64)), || here(format!("asset_balance({:?})", a.name())), &mut out);
        *evals += 1;
    }
    for n in pools.inst.iter().chain(&pools.inst_near) {
        let want = ti(n).map(trade);
        judge("inbound/trade", want, indexer.trade(trade(n.clone())), || here(format!("trade({:?})", n.name())), &mut out);
        *evals += 1;
    }
    // near-miss names under this exchange's own id: order key, and the account_event wrapper around a balance
    for n in &pools.inst_near {
        let want = ti(n).map(|i| key(xi, i, "k"));
        judge("inbound/order-key", want, indexer.order_key(key(x, n.clone(), "k")), || here(format!("order_key({x}, {:?})", n.name())), &mut out);
        *evals += 1;
    }
    for a in &pools.asset_near {
        let want = ta(a).map(|i| AccountEvent { exchange: xi, kind: AccountEventKind::BalanceSnapshot(Snapshot(balance(i, 1))) });
        let input = AccountEvent { exchange: x, kind: AccountEventKind::BalanceSnapshot(Snapshot(balance(a.clone(), 1))) };
        judge("inbound/account-event", want, indexer.account_event(input), || here(format!("account_event({x}, balance {:?})", a.name())), &mut out);
        *evals += 1;
    }
    // own names under EVERY exchange id there is (siblings of the same venue, the specially treated ids): only
    // this exchange's id translates
    let own_inst = truth.instruments.iter().find(|e| e.ex == x).map(|e| (e.idx, InstrumentNameExchange::new(e.name_ex.as_str())));
    let own_asset = truth.assets.iter().find(|e| e.ex == x).map(|e| (e.idx, AssetNameExchange::new(e.name_ex.as_str())));
    for y in ALL_IDS.iter().filter(|y| !ex_pool.contains(y)) {
        if let Some((i, n)) = &own_inst {
            judge("inbound/order-key", None, indexer.order_key(key(*y, n.clone(), "k")), || here(format!("order_key({y}, {n})")), &mut out);
            let input = AccountEvent { exchange: *y, kind: AccountEventKind::Trade(trade(n.clone())) };
            judge("inbound/account-event", None, indexer.account_event(input), || here(format!("account_event({y}, trade {n})")), &mut out);
            // wrapper says this exchange, the order key inside says `y`
            let input = AccountEvent { exchange: x, kind: AccountEventKind::OrderSnapshot(Snapshot(order(*y, n.clone(), "w", order_state(0, &pools.asset[0], &pools.inst[0])))) };
            judge("inbound/account-event", None, indexer.account_event(input), || here(format!("account_event({x}, order snapshot keyed ({y}, {n}))")), &mut out);
            let input = AccountSnapshot { exchange: *y, balances: vec![], instruments: vec![InstrumentAccountSnapshot { instrument: n.clone(), orders: vec![] }] };
            judge("inbound/account-snapshot", None, indexer.snapshot(input), || here(format!("snapshot({y}, instruments [{n}])")), &mut out);
            let _ = i;
            *evals += 4;
        }
        if let Some((_, a)) = &own_asset {
            let input = AccountEvent { exchange: *y, kind: AccountEventKind::BalanceSnapshot(Snapshot(balance(a.clone(), 1))) };
            judge("inbound/account-event", None, indexer.account_event(input), || here(format!("account_event({y}, balance {a})")), &mut out);
            let input = AccountSnapshot { exchange: *y, balances: vec![balance(a.clone(), 1)], instruments: vec![] };
            judge("inbound/account-snapshot", None, indexer.snapshot(input), || here(format!("snapshot({y}, balances [{a}])")), &mut out);
            *evals += 2;
        }
    }
    for y in &ex_pool {
        let own_ex = *y == x;
        for n in &pools.inst {
            let want = own_ex.then_some(()).and(ti(n)).map(|i| key(xi, i, "k"));
            judge("inbound/order-key", want, indexer.order_key(key(*y, n.clone(), "k")), || here(format!("order_key({y}, {n})")), &mut out);
            *evals += 1;
            // order snapshots in every state; key-carrying states with every pooled asset / instrument name
            for v in 0..N_STATE {
                let (ua, ui) = state_uses(v);
                let assets: &[AssetNameExchange] = if ua { &pools.asset } else { &pools.asset[..1] };
                let insts: &[InstrumentNameExchange] = if ui { &pools.inst } else { &pools.inst[..1] };
                for a in assets {
                    for n2 in insts {
                        let want = (|| {
                            let i = own_ex.then_some(()).and(ti(n))?;
                            let ai = if ua { ta(a)? } else { AssetIndex(0) };
                            let i2 = if ui { ti(n2)? } else { InstrumentIndex(0) };
                            Some(order(xi, i, "s", order_state(v, &ai, &i2)))
                        })();
                        let input = order(*y, n.clone(), "s", order_state(v, a, n2));
                        let describe = || here(format!("order_snapshot({y}, {n}, state {v}, asset {a}, instrument {n2})"));
                        match (own_ex.then_some(()).and(ti(n)), want) {
                            // the order names an own instrument, but its rejection names an asset / instrument that is not
                            // this exchange's: that name must not translate; whether the event is refused or delivered with
                            // the rejection in a form that carries no key is not prescribed
                            (Some(i), None) => {
                                if let Ok(g) = indexer.order_snapshot(input) {
                                    let fine = matches!(&g.state, OrderState::Inactive(InactiveOrderState::OpenFailed(OrderError::Rejected(e))) if keyless(e))
                                        && g == order(xi, i, "s", g.state.clone());
                                    if !fine {
                                        out.push(("C04/inbound/order-snapshot/foreign-translates".into(), format!("{}: got {g:?}, expected an error or the order of {i:?} with a rejection that carries no key", describe())));
                                    }
                                }
                            }
                            (_, want) => judge("inbound/order-snapshot", want, indexer.order_snapshot(input), describe, &mut out),
                        }
                        *evals += 1;
                    }
                }
            }
            for v in 0..N_CANCEL {
                let (ua, ui) = cancel_uses(v);
                let assets: &[AssetNameExchange] = if ua { &pools.asset } else { &pools.asset[..1] };
                let insts: &[InstrumentNameExchange] = if ui { &pools.inst } else { &pools.inst[..1] };
                for a in assets {
                    for n2 in insts {
                        let want = (|| {
                            let i = own_ex.then_some(()).and(ti(n))?;
                            let ai = if ua { ta(a)? } else { AssetIndex(0) };
                            let i2 = if ui { ti(n2)? } else { InstrumentIndex(0) };
                            Some(OrderEvent { key: key(xi, i, "r"), state: cancel_state(v, &ai, &i2) })
                        })();
                        let input = OrderEvent { key: key(*y, n.clone(), "r"), state: cancel_state(v, a, n2) };
                        let describe = || here(format!("order_response_cancel({y}, {n}, result {v}, asset {a}, instrument {n2})"));
                        match (own_ex.then_some(()).and(ti(n)), want) {
                            // as for order snapshots: own order key, rejection naming something that is not this exchange's
                            (Some(i), None) => {
                                if let Ok(g) = indexer.order_response_cancel(input) {
                                    let fine = matches!(&g.state, Err(OrderError::Rejected(e)) if keyless(e)) && g.key == key(xi, i, "r");
                                    if !fine {
                                        out.push(("C04/inbound/cancel-response/foreign-translates".into(), format!("{}: got {g:?}, expected an error or the response for {i:?} with a rejection that carries no key", describe())));
                                    }
                                }
                            }
                            (_, want) => judge("inbound/cancel-response", want, indexer.order_response_cancel(input), describe, &mut out),
                        }
                        *evals += 1;
                    }
                }
            }
        }
        // account_event wrapper: the outer exchange id decides, then the inner names
        for a in &pools.asset {
            let want = own_ex.then_some(()).and(ta(a)).map(|i| AccountEvent { exchange: xi, kind: AccountEventKind::BalanceSnapshot(Snapshot(balance(i, 1))) });
            let input = AccountEvent { exchange: *y, kind: AccountEventKind::BalanceSnapshot(Snapshot(balance(a.clone(), 1))) };
            judge("inbound/account-event", want, indexer.account_event(input), || here(format!("account_event({y}, balance {a})")), &mut out);
            *evals += 1;
        }
        for n in &pools.inst {
            let want = own_ex.then_some(()).and(ti(n)).map(|i| AccountEvent { exchange: xi, kind: AccountEventKind::Trade(trade(i)) });
            let input = AccountEvent { exchange: *y, kind: AccountEventKind::Trade(trade(n.clone())) };
            judge("inbound/account-event", want, indexer.account_event(input), || here(format!("account_event({y}, trade {n})")), &mut out);
            // the wrapper's exchange and the order key's exchange may disagree: both must be this exchange
            for y2 in &ex_pool {
                let both = own_ex && *y2 == x;
                let want = both.then_some(()).and(ti(n)).map(|i| AccountEvent { exchange: xi, kind: AccountEventKind::OrderSnapshot(Snapshot(order(xi, i, "w", order_state(0, &AssetIndex(0), &InstrumentIndex(0))))) });
                let input = AccountEvent { exchange: *y, kind: AccountEventKind::OrderSnapshot(Snapshot(order(*y2, n.clone(), "w", order_state(0, &pools.asset[0], &pools.inst[0])))) };
                judge("inbound/account-event", want, indexer.account_event(input), || here(format!("account_event({y}, order snapshot keyed ({y2}, {n}))")), &mut out);
                let want = both.then_some(()).and(ti(n)).map(|i| AccountEvent { exchange: xi, kind: AccountEventKind::OrderCancelled(OrderEvent { key: key(xi, i, "w"), state: cancel_state(0, &AssetIndex(0), &InstrumentIndex(0)) }) });
                let input = AccountEvent { exchange: *y, kind: AccountEventKind::OrderCancelled(OrderEvent { key: key(*y2, n.clone(), "w"), state: cancel_state(0, &pools.asset[0], &pools.inst[0]) }) };
                judge("inbound/account-event", want, indexer.account_event(input), || here(format!("account_event({y}, cancel response keyed ({y2}, {n}))")), &mut out);
                *evals += 2;
            }
            *evals += 1;
        }
        // full account snapshots: every ordered pair of asset names, every ordered pair of instrument names
        for (a1, a2) in pools.asset.iter().cartesian_product(pools.asset.iter()) {
            let own_part = || AccountSnapshot {
                exchange: xi,
                balances: [(a1, 1), (a2, 2)].into_iter().filter_map(|(a, k)| ta(a).map(|i| balance(i, k))).collect(),
                instruments: vec![],
            };
            let complete = ta(a1).is_some() && ta(a2).is_some();
            let input = AccountSnapshot { exchange: *y, balances: vec![balance(a1.clone(), 1), balance(a2.clone(), 2)], instruments: vec![] };
            judge_snapshot("inbound/account-snapshot", own_ex, complete, own_part, "foreign-translates", indexer.snapshot(input), || here(format!("snapshot({y}, balances [{a1}, {a2}])")), &mut out);
            *evals += 1;
        }
        for (n1, n2) in pools.inst.iter().cartesian_product(pools.inst.iter()) {
            let own_part = || AccountSnapshot {
                exchange: xi,
                balances: vec![],
                instruments: ti(n1).map(|i1| InstrumentAccountSnapshot { instrument: i1, orders: vec![order(xi, i1, "a", order_state(0, &AssetIndex(0), &InstrumentIndex(0)))] }).into_iter()
                    .chain(ti(n2).map(|i2| InstrumentAccountSnapshot { instrument: i2, orders: vec![] }))
                    .collect(),
            };
            let complete = ti(n1).is_some() && ti(n2).is_some();
            let input = AccountSnapshot {
                exchange: *y,
                balances: vec![],
                instruments: vec![
                    InstrumentAccountSnapshot { instrument: n1.clone(), orders: vec![order(*y, n1.clone(), "a", order_state(0, &pools.asset[0], &pools.inst[0]))] },
                    InstrumentAccountSnapshot { instrument: n2.clone(), orders: vec![] },
                ],
            };
            judge_snapshot("inbound/account-snapshot", own_ex, complete, own_part, "foreign-translates", indexer.snapshot(input), || here(format!("snapshot({y}, instruments [{n1} with order, {n2}])")), &mut out);
            *evals += 1;
        }
        // full account snapshots whose parts disagree: the order inside an instrument entry is keyed with exchange
        // id `y` (the snapshot itself says `x`) and with its own instrument name. Every part must name this
        // exchange's entities for the snapshot to translate, and the order is indexed to the instrument IT names.
        for (n1, n2) in pools.inst.iter().cartesian_product(pools.inst.iter()) {
            // the order translates only if its own key names this exchange and an own instrument
            let order_own = own_ex.then_some(()).and(ti(n2));
            let own_part = || AccountSnapshot {
                exchange: xi,
                balances: vec![],
                instruments: ti(n1).map(|i1| InstrumentAccountSnapshot {
                    instrument: i1,
                    orders: order_own.map(|i2| order(xi, i2, "a", order_state(0, &AssetIndex(0), &InstrumentIndex(0)))).into_iter().collect(),
                }).into_iter().collect(),
            };
            // (an order filed under another own instrument's entry: refusing is as good as translating)
            let complete = ti(n1).is_some() && order_own.is_some() && n1 == n2;
            let all_own = ti(n1).is_some() && order_own.is_some();
            let input = AccountSnapshot {
                exchange: x,
                balances: vec![],
                instruments: vec![InstrumentAccountSnapshot { instrument: n1.clone(), orders: vec![order(*y, n2.clone(), "a", order_state(0, &pools.asset[0], &pools.inst[0]))] }],
            };
            let describe = || here(format!("snapshot({x}, instruments [{n1} with an order keyed ({y}, {n2})])"));
            judge_snapshot("inbound/account-snapshot", true, complete, own_part, if all_own { "own-gives-other-entity" } else { "foreign-translates" }, indexer.snapshot(input), describe, &mut out);
            *evals += 1;
        }
        // the account_event wrapper around a full snapshot: wrapper exchange `y`, snapshot exchange `y2`
        for y2 in &ex_pool {
            let both = own_ex && *y2 == x;
            for (k, a) in pools.asset.iter().enumerate() {
                let n = &pools.inst[k % pools.inst.len()];
                let own_part = || AccountSnapshot {
                    exchange: xi,
                    balances: ta(a).map(|i| balance(i, 3)).into_iter().collect(),
                    instruments: ti(n).map(|i| InstrumentAccountSnapshot { instrument: i, orders: vec![] }).into_iter().collect(),
                };
                let complete = ta(a).is_some() && ti(n).is_some();
                let input = AccountEvent {
                    exchange: *y,
                    kind: AccountEventKind::Snapshot(AccountSnapshot {
                        exchange: *y2,
                        balances: vec![balance(a.clone(), 3)],
                        instruments: vec![InstrumentAccountSnapshot { instrument: n.clone(), orders: vec![] }],
                    }),
                };
                let describe = || here(format!("account_event({y}, full snapshot of {y2}: balance {a}, instrument {n})"));
                match indexer.account_event(input) {
                    Ok(AccountEvent { exchange, kind: AccountEventKind::Snapshot(s) }) if exchange == xi => judge_snapshot("inbound/account-event", both, complete, own_part, "foreign-translates", Ok::<_, ()>(s), describe, &mut out),
                    Ok(other) => out.push((format!("C04/inbound/account-event/{}", if both { "own-gives-other-entity" } else { "foreign-translates" }), format!("{}: got {other:?}", describe()))),
                    Err(e) => judge_snapshot("inbound/account-event", both, complete, own_part, "foreign-translates", Err(e), describe, &mut out),
                }
                *evals += 1;
            }
        }
    }
    // client errors carrying keys
    for v in 0..N_API {
        let (ua, ui) = api_uses(v);
        let assets: &[AssetNameExchange] = if ua { &pools.asset } else { &pools.asset[..1] };
        let insts: &[InstrumentNameExchange] = if ui { &pools.inst } else { &pools.inst[..1] };
        for a in assets {
            for n2 in insts {
                let want = (|| {
                    let ai = if ua { ta(a)? } else { AssetIndex(0) };
                    let i2 = if ui { ti(n2)? } else { InstrumentIndex(0) };
                    Some(ClientError::Api(api_error(v, &ai, &i2)))
                })();
                let describe = || here(format!("client_error(api {v}, asset {a}, instrument {n2})"));
                match want {
                    // the error names an asset / instrument that is not this exchange's: the name must not translate
                    // (an error, or the error in a form that carries no key)
                    None => {
                        if let Ok(g) = indexer.client_error(ClientError::Api(api_error(v, a, n2))) {
                            if !matches!(&g, ClientError::Api(e) if keyless(e)) {
                                out.push(("C04/inbound/client-error/foreign-translates".into(), format!("{}: got {g:?}, expected an error or an API error that carries no key", describe())));
                            }
                        }
                    }
                    want => judge("inbound/client-error", want, indexer.client_error(ClientError::Api(api_error(v, a, n2))), describe, &mut out),
                }
                *evals += 1;
            }
        }
    }
    out
}

// ---------------------------------------------------------------------------------------------------------
// layer "manager" (E-ENV): the real ExecutionManager::run with a recording stub client
// ---------------------------------------------------------------------------------------------------------

/// Drive one fresh manager of exchange `x` with one request; returns (client log, response events, panic).
fn drive_manager(
    x: ExchangeId,
    map: &ExecutionInstrumentMap,
    request: ExecutionRequest,
    reject_with: Option<barter_execution::error::UnindexedOrderError>,
) -> (Vec<Rec>, Vec<AccountStreamEvent>, Option<String>) {
    drive_manager_seq(x, map, vec![request], false, reject_with)
}

/// Drive one fresh manager of exchange `x` with a sequence of requests (`burst`: all of them are queued before
/// the manager is polled again; otherwise each is handed over once the manager has quiesced on the previous
/// one, i.e. after the previous one was answered); returns (client log, response events, panic).
fn drive_manager_seq(
    x: ExchangeId,
    map: &ExecutionInstrumentMap,
    requests: Vec<ExecutionRequest>,
    burst: bool,
    reject_with: Option<barter_execution::error::UnindexedOrderError>,
) -> (Vec<Rec>, Vec<AccountStreamEvent>, Option<String>) {
    fn go<const X: usize>(map: &ExecutionInstrumentMap, requests: Vec<ExecutionRequest>, burst: bool, cfg: StubCfg) -> (Vec<AccountStreamEvent>, Option<String>) {
        let (req_tx, req_rx) = mpsc_unbounded::<ExecutionRequest>();
        let (resp_tx, mut resp_rx) = mpsc_unbounded::<AccountStreamEvent>();
        let manager = ExecutionManager::new(
            req_rx.into_stream(),
            Duration::from_secs(5),
            resp_tx,
            Arc::new(Stub::<X>::new(cfg)),
            AccountEventIndexer::new(Arc::new(map.clone())),
        );
        let mut fut = Box::pin(manager.run());
        let (flag, waker) = flag_waker();
        assert!(matches!(poll_quiesce(fut.as_mut(), &flag, &waker), Poll::Pending), "harness: idle manager must be pending");
        let mut panic = None;
        let n = requests.len();
        for (k, request) in requests.into_iter().enumerate() {
            req_tx.send(request).expect("harness: manager alive");
            if burst && k + 1 < n {
                continue;
            }
            panic = match guarded(|| poll_quiesce(fut.as_mut(), &flag, &waker)) {
                Ok(Poll::Pending) => None,
                Ok(Poll::Ready(())) => Some("manager terminated".to_string()),
                Err(p) => Some(p),
            };
            if panic.is_some() {
                break; // the future is gone; nothing further can be delivered
            }
        }
        let mut events = Vec::new();
        while let Ok(ev) = resp_rx.rx.try_recv() {
            events.push(ev);
        }
        (events, panic)
    }
    let cfg: StubCfg = Arc::new(Mutex::new(StubScript { log: vec![], reject_with, stream_events: vec![] }));
    let xpos = EX.iter().position(|e| *e == x).unwrap();
    let (events, panic) = match xpos {
        0 => go::<0>(map, requests, burst, cfg.clone()),
        1 => go::<1>(map, requests, burst, cfg.clone()),
        _ => go::<2>(map, requests, burst, cfg.clone()),
    };
    let log = cfg.lock().unwrap().log.clone();
    (log, events, panic)
}

fn check_manager(truth: &Truth, ix: &IndexedInstruments, x: ExchangeId, map: &ExecutionInstrumentMap, pairs: bool, runs: &mut u64) -> Vec<Viol> {
    let mut out = Vec::new();
    let xi = truth.ex_index(x).unwrap();
    let rt = paused_rt();
    let _g = rt.enter();
    let own_asset = truth.assets.iter().find(|e| e.ex == x).unwrap().clone();
    let stub = EX.iter().position(|y| *y == x).unwrap();
    // what the client must see for a request naming own instrument `n`
    let want_rec = |is_open: bool, n: &InstrumentNameExchange, cid: &str| {
        if is_open {
            Rec::Open { stub, exchange: x, instrument: n.name().to_string(), cid: cid.to_string() }
        } else {
            Rec::Cancel { stub, exchange: x, instrument: n.name().to_string(), cid: cid.to_string() }
        }
    };
    // the answer travels back under the original engine keys
    let want_ev = |is_open: bool, g: usize, cid: &str, reject: bool| {
        if is_open {
            let state: OrderState = if reject {
                OrderState::inactive(OrderError::Rejected(ApiError::BalanceInsufficient(own_asset.idx, "x".into())))
            } else {
                OrderState::active(Open { id: OrderId::new("stub-order"), time_exchange: t_plus(2), filled_quantity: Decimal::ZERO })
            };
            let r = request_open();
            AccountStreamEvent::Item(AccountEvent {
                exchange: xi,
                kind: AccountEventKind::OrderSnapshot(Snapshot(Order {
                    key: key(xi, InstrumentIndex(g), cid), side: r.side, price: r.price, quantity: r.quantity, kind: r.kind, time_in_force: r.time_in_force, state,
                })),
            })
        } else {
            AccountStreamEvent::Item(AccountEvent {
                exchange: xi,
                kind: AccountEventKind::OrderCancelled(OrderEvent {
                    key: key(xi, InstrumentIndex(g), cid),
                    state: if reject {
                        Err(OrderError::Rejected(ApiError::BalanceInsufficient(own_asset.idx, "x".into())))
                    } else {
                        Ok(Cancelled { id: OrderId::new("stub-order"), time_exchange: t_plus(2) })
                    },
                }),
            })
        }
    };
    let make_request = |is_open: bool, e: ExchangeIndex, g: usize, cid: &str| {
        if is_open {
            ExecutionRequest::Open(OrderEvent { key: key(e, InstrumentIndex(g), cid), state: request_open() })
        } else {
            ExecutionRequest::Cancel(OrderEvent { key: key(e, InstrumentIndex(g), cid), state: RequestCancel { id: None } })
        }
    };
    // addressed exchange index: the right one, and (once per instrument) a wrong one
    let wrong_e = ExchangeIndex((xi.index() + 1) % (truth.exchanges.len() + 1));
    for g in 0..=ix.instruments().len() {
        let name = truth.inst_name(x, g);
        for (e, is_open, reject) in [(xi, true, false), (xi, false, false), (xi, true, true), (xi, false, true), (wrong_e, true, false)] {
            if e == xi && reject && name.is_none() {
                continue;
            }
            let cid = format!("m{g}");
            let request = make_request(is_open, e, g, &cid);
            let reject_with = reject.then(|| OrderError::Rejected(ApiError::BalanceInsufficient(AssetNameExchange::new(own_asset.name_ex.as_str()), "x".into())));
            let (log, events, panic) = drive_manager(x, map, request, reject_with);
            *runs += 1;
            let here = format!("manager of {x} ({xi}), {} addressed (exchange {e}, instrument {g}){}", if is_open { "open" } else { "cancel" }, if reject { ", client rejects" } else { "" });
            let want_name = if e == xi { name.clone() } else { None };
            match want_name {
                None => {
                    // not an instrument of this exchange (or not addressed to it): the client must never see it
                    if !log.is_empty() {
                        let cause = if e == xi { "foreign-instrument/reaches-client" } else { "foreign-exchange-index/reaches-client" };
                        out.push((format!("C04/manager/{cause}"), format!("{here}: client received {log:?}")));
                    }
                }
                Some(n) => {
                    let want_rec = want_rec(is_open, &n, &cid);
                    if log.is_empty() {
                        out.push(("C04/manager/own-instrument/never-reaches-client".into(), format!("{here}: client saw nothing; manager: {panic:?}")));
                        continue;
                    }
                    if log != vec![want_rec.clone()] {
                        out.push(("C04/manager/own-instrument/client-addressed-with-other-name".into(), format!("{here}: client received {log:?}, expected {want_rec:?}")));
                        continue;
                    }
                    let want_ev = want_ev(is_open, g, &cid, reject);
                    if events != vec![want_ev.clone()] {
                        let cause = if events.is_empty() { "missing" } else { "indexed-to-other-entity" };
                        out.push((format!("C04/manager/response/{cause}"), format!("{here}: response events {events:?}, expected {want_ev:?}; manager: {panic:?}")));
                    }
                }
            }
        }
    }
    if !out.is_empty() || !pairs {
        return out; // the single-request runs already name the defect (or: large menu, single requests only)
    }
    // ---- two requests through ONE manager: every ordered pair of own instruments (incl. the same one twice) x
    // {open, cancel}^2 x {distinct client order ids, the same id} x {second request after the first was answered,
    // both queued before the manager runs}. A client order id identifies an order only together with its
    // instrument (OrderKey), so the same id on two instruments names two orders. Each request must reach the
    // client under its own instrument's name and be answered under its own engine key, whatever was sent
    // before it. The order in which the client sees two queued requests of different kinds, and the order of
    // the answers, are not prescribed: logs and answers are compared as multisets.
    let own: Vec<(usize, InstrumentNameExchange)> = truth.instruments.iter().filter(|e| e.ex == x)
        .map(|e| (e.idx.index(), InstrumentNameExchange::new(e.name_ex.as_str()))).sorted().collect();
    for ((g1, n1), (g2, n2)) in own.iter().cartesian_product(own.iter()) {
        for (k1, k2, same_cid, burst) in itertools::iproduct!([true, false], [true, false], [false, true], [false, true]) {
            let (c1, c2) = if same_cid { ("p".to_string(), "p".to_string()) } else { ("p1".to_string(), "p2".to_string()) };
            let requests = vec![make_request(k1, xi, *g1, &c1), make_request(k2, xi, *g2, &c2)];
            let (log, events, panic) = drive_manager_seq(x, map, requests, burst, None);
            *runs += 1;
            let kind = |k: bool| if k { "open" } else { "cancel" };
            let here = format!("manager of {x} ({xi}), {} for instrument {g1} (cid {c1}) then {} for instrument {g2} (cid {c2}){}",
                kind(k1), kind(k2), if burst { ", both queued before the manager runs" } else { "" });
            let canon = |v: Vec<String>| v.into_iter().sorted().collect::<Vec<_>>();
            let got_log = canon(log.iter().map(|r| format!("{r:?}")).collect());
            let want_log = canon(vec![format!("{:?}", want_rec(k1, n1, &c1)), format!("{:?}", want_rec(k2, n2, &c2))]);
            if got_log != want_log {
                let cause = if got_log.len() < want_log.len() { "request-never-reaches-client" } else { "client-addressed-with-other-name" };
                out.push((format!("C04/manager/sequence/{cause}"), format!("{here}: client received {log:?}, expected (any order) {want_log:?}; manager: {panic:?}")));
                continue;
            }
            let got_ev = canon(events.iter().map(|e| format!("{e:?}")).collect());
            let want_evs = canon(vec![format!("{:?}", want_ev(k1, *g1, &c1, false)), format!("{:?}", want_ev(k2, *g2, &c2, false))]);
            if got_ev != want_evs {
                let cause = if got_ev.len() < want_evs.len() { "missing" } else { "indexed-to-other-entity" };
                out.push((format!("C04/manager/sequence/response/{cause}"), format!("{here}: response events {events:?}, expected (any order) {want_evs:?}; manager: {panic:?}")));
            }
        }
    }
    out
}

/// A client for the `stream` layer's second run: answers `account_snapshot` with a prepared snapshot (whatever
/// order the names were requested in); its account stream stays silent.
#[derive(Debug, Clone)]
struct SnapStub<const X: usize> {
    answer: Arc<barter_execution::UnindexedAccountSnapshot>,
}

impl<const X: usize> ExecutionClient for SnapStub<X> {
    const EXCHANGE: ExchangeId = EX[X];
    type Config = Arc<barter_execution::UnindexedAccountSnapshot>;
    type AccountStream = futures::stream::BoxStream<'static, barter_execution::UnindexedAccountEvent>;

    fn new(config: Self::Config) -> Self {
        Self { answer: config }
    }
    async fn account_snapshot(&self, _: &[AssetNameExchange], _: &[InstrumentNameExchange]) -> Result<barter_execution::UnindexedAccountSnapshot, barter_execution::error::UnindexedClientError> {
        Ok((*self.answer).clone())
    }
    async fn account_stream(&self, _: &[AssetNameExchange], _: &[InstrumentNameExchange]) -> Result<Self::AccountStream, barter_execution::error::UnindexedClientError> {
        use futures::StreamExt;
        Ok(futures::stream::pending().boxed())
    }
    async fn cancel_order(&self, _: barter_execution::order::request::OrderRequestCancel<ExchangeId, &InstrumentNameExchange>) -> barter_execution::order::request::UnindexedOrderResponseCancel {
        unreachable!("harness: the stream layer sends no requests")
    }
    async fn open_order(&self, _: barter_execution::order::request::OrderRequestOpen<ExchangeId, &InstrumentNameExchange>) -> Order<ExchangeId, InstrumentNameExchange, Result<Open, barter_execution::error::UnindexedOrderError>> {
        unreachable!("harness: the stream layer sends no requests")
    }
    async fn fetch_balances(&self) -> Result<Vec<AssetBalance<AssetNameExchange>>, barter_execution::error::UnindexedClientError> {
        Ok(vec![])
    }
    async fn fetch_open_orders(&self) -> Result<Vec<Order<ExchangeId, InstrumentNameExchange, Open>>, barter_execution::error::UnindexedClientError> {
        Ok(vec![])
    }
    async fn fetch_trades(&self, _: chrono::DateTime<chrono::Utc>) -> Result<Vec<Trade<QuoteAsset, InstrumentNameExchange>>, barter_execution::error::UnindexedClientError> {
        Ok(vec![])
    }
}

// ---------------------------------------------------------------------------------------------------------
// layer "stream" (E-ENV): ExecutionManager::init -> snapshot + IndexedAccountStream, polled by hand
// ---------------------------------------------------------------------------------------------------------

fn check_stream(truth: &Truth, x: ExchangeId, map: &ExecutionInstrumentMap, pools: &Pools, evals: &mut u64) -> Vec<Viol> {
    use futures::StreamExt;
    let mut out = Vec::new();
    let xi = truth.ex_index(x).unwrap();
    // script: one event of every kind for every pooled name (own, foreign, unknown), tagged with this exchange,
    // plus own-named events tagged with a foreign exchange id
    let mut script: Vec<barter_execution::UnindexedAccountEvent> = Vec::new();
    let mut want: Vec<AccountEvent> = Vec::new();
    for (k, a) in pools.asset.iter().enumerate() {
        script.push(AccountEvent { exchange: x, kind: AccountEventKind::BalanceSnapshot(Snapshot(balance(a.clone(), k as i64))) });
        if let Some(i) = truth.asset(x, a.name()) {
            want.push(AccountEvent { exchange: xi, kind: AccountEventKind::BalanceSnapshot(Snapshot(balance(i, k as i64))) });
        }
    }
    for n in &pools.inst {
        let own = truth.inst(x, n.name());
        script.push(AccountEvent { exchange: x, kind: AccountEventKind::OrderSnapshot(Snapshot(order(x, n.clone(), "st", order_state(0, &pools.asset[0], n)))) });
        script.push(AccountEvent { exchange: x, kind: AccountEventKind::Trade(trade(n.clone())) });
        script.push(AccountEvent { exchange: x, kind: AccountEventKind::OrderCancelled(OrderEvent { key: key(x, n.clone(), "st"), state: cancel_state(0, &pools.asset[0], n) }) });
        if let Some(i) = own {
            want.push(AccountEvent { exchange: xi, kind: AccountEventKind::OrderSnapshot(Snapshot(order(xi, i, "st", order_state(0, &AssetIndex(0), &i)))) });
            want.push(AccountEvent { exchange: xi, kind: AccountEventKind::Trade(trade(i)) });
            want.push(AccountEvent { exchange: xi, kind: AccountEventKind::OrderCancelled(OrderEvent { key: key(xi, i, "st"), state: cancel_state(0, &AssetIndex(0), &i) }) });
            // same names, but the event says it comes from another exchange: must not be attributed to this one
            let other = EX.iter().find(|y| **y != x).copied().unwrap();
            script.push(AccountEvent { exchange: other, kind: AccountEventKind::Trade(trade(n.clone())) });
        }
    }
    // the initial snapshot echoes the names the client was initialised with
    let snapshot = AccountEvent {
        exchange: xi,
        kind: AccountEventKind::Snapshot(AccountSnapshot {
            exchange: xi,
            balances: truth.assets.iter().filter(|e| e.ex == x).map(|e| AssetBalance { asset: e.idx, balance: Balance::default(), time_exchange: super::common::t0() }).sorted().collect(),
            instruments: truth.instruments.iter().filter(|e| e.ex == x).map(|e| InstrumentAccountSnapshot { instrument: e.idx, orders: vec![] }).sorted().collect(),
        }),
    };

    fn go<C>(map: &ExecutionInstrumentMap, client: C) -> Result<Vec<AccountStreamEvent>, String>
    where
        C: ExecutionClient + Send + Sync + 'static,
        C::AccountStream: Send + 'static,
    {
        let (_req_tx, req_rx) = mpsc_unbounded::<ExecutionRequest>();
        let (flag, waker) = flag_waker();
        let mut init = Box::pin(ExecutionManager::init(
            req_rx.into_stream(),
            Duration::from_secs(5),
            Arc::new(client),
            AccountEventIndexer::new(Arc::new(map.clone())),
            barter_data::streams::consumer::STREAM_RECONNECTION_POLICY,
        ));
        let (_manager, stream) = match guarded(|| poll_quiesce(init.as_mut(), &flag, &waker))? {
            Poll::Ready(Ok(pair)) => pair,
            Poll::Ready(Err(e)) => return Err(format!("init failed: {e:?}")),
            Poll::Pending => panic!("harness: ExecutionManager::init stayed pending with an immediate stub"),
        };
        let mut stream = Box::pin(stream);
        let mut got = Vec::new();
        loop {
            let mut next = stream.next();
            match guarded(|| poll_quiesce(std::pin::Pin::new(&mut next), &flag, &waker))? {
                Poll::Ready(Some(ev)) => got.push(ev),
                Poll::Ready(None) => return Err("account stream ended".into()),
                Poll::Pending => return Ok(got),
            }
            assert!(got.len() < 10_000, "harness: runaway account stream");
        }
    }
    let rt = paused_rt();
    let _g = rt.enter();
    let cfg: StubCfg = Arc::new(Mutex::new(StubScript { log: vec![], reject_with: None, stream_events: script }));
    // normalise: list order inside the snapshot and order of events are not part of the statement
    let norm = |ev: &AccountEvent| -> String {
        let mut ev = ev.clone();
        if let AccountEventKind::Snapshot(s) = &mut ev.kind {
            s.balances.sort();
            s.instruments.sort();
        }
        format!("{ev:?}")
    };
    let xpos = EX.iter().position(|e| *e == x).unwrap();
    let got = match xpos {
        0 => go(map, Stub::<0>::new(cfg)),
        1 => go(map, Stub::<1>::new(cfg)),
        _ => go(map, Stub::<2>::new(cfg)),
    };
    *evals += 1;
    let here = format!("account stream of {x} ({xi})");
    let got = match got {
        Ok(g) => g,
        Err(e) => {
            out.push(("C04/stream/breaks".into(), format!("{here}: {e}")));
            return out;
        }
    };
    // ---- second run: a client that answers the snapshot request in ANOTHER ORDER than it was asked (names
    // descending), with a distinct balance per asset and one open order per instrument. Every balance and every
    // order of the initial snapshot must land on the asset / instrument it NAMES; the position of an entry in
    // the answer means nothing.
    {
        let own_assets: Vec<&Ent<AssetIndex>> = truth.assets.iter().filter(|e| e.ex == x).sorted_by(|a, b| b.name_ex.cmp(&a.name_ex)).collect();
        let own_insts: Vec<&Ent<InstrumentIndex>> = truth.instruments.iter().filter(|e| e.ex == x).sorted_by(|a, b| b.name_ex.cmp(&a.name_ex)).collect();
        let answer = AccountSnapshot {
            exchange: x,
            balances: own_assets.iter().enumerate().map(|(k, e)| balance(AssetNameExchange::new(e.name_ex.as_str()), 100 + k as i64)).collect(),
            instruments: own_insts.iter().map(|e| {
                let n = InstrumentNameExchange::new(e.name_ex.as_str());
                InstrumentAccountSnapshot { instrument: n.clone(), orders: vec![order(x, n.clone(), "snap", order_state(0, &pools.asset[0], &n))] }
            }).collect(),
        };
        let want_snapshot = AccountEvent {
            exchange: xi,
            kind: AccountEventKind::Snapshot(AccountSnapshot {
                exchange: xi,
                balances: own_assets.iter().enumerate().map(|(k, e)| balance(e.idx, 100 + k as i64)).collect(),
                instruments: own_insts.iter().map(|e| InstrumentAccountSnapshot { instrument: e.idx, orders: vec![order(xi, e.idx, "snap", order_state(0, &AssetIndex(0), &e.idx))] }).collect(),
            }),
        };
        let got2 = match xpos {
            0 => go(map, SnapStub::<0>::new(Arc::new(answer))),
            1 => go(map, SnapStub::<1>::new(Arc::new(answer))),
            _ => go(map, SnapStub::<2>::new(Arc::new(answer))),
        };
        *evals += 1;
        match got2 {
            Err(e) => out.push(("C04/stream/breaks".into(), format!("{here}, snapshot answered in another order: {e}"))),
            Ok(evs) => {
                let items: Vec<String> = evs.iter().map(|ev| match ev {
                    AccountStreamEvent::Item(item) => norm(item),
                    other => format!("{other:?}"),
                }).collect();
                if items != vec![norm(&want_snapshot)] {
                    out.push(("C04/stream/initial-snapshot/entry-lands-on-other-entity".into(),
                        format!("{here}: client answered the snapshot request with its names in descending order; delivered {items:?}, expected {}", norm(&want_snapshot))));
                }
            }
        }
    }
    let mut got_items: Vec<String> = Vec::new();
    for ev in &got {
        match ev {
            AccountStreamEvent::Item(item) => got_items.push(norm(item)),
            AccountStreamEvent::Reconnecting(_) => out.push(("C04/stream/breaks".into(), format!("{here}: reconnecting notice without a disconnect"))),
        }
    }
    let mut want_items: Vec<String> = want.iter().chain([&snapshot]).map(norm).collect();
    got_items.sort();
    want_items.sort();
    if let Some(missing) = want_items.iter().find(|w| !got_items.contains(w)) {
        out.push(("C04/stream/own-event-lost-or-misindexed".into(), format!("{here}: expected event not delivered: {missing}")));
    }
    if let Some(extra) = got_items.iter().find(|g| !want_items.contains(g)) {
        out.push(("C04/stream/foreign-or-misindexed-event-delivered".into(), format!("{here}: delivered event that no own-named input justifies: {extra}")));
    }
    if out.is_empty() && got_items.len() != want_items.len() {
        out.push(("C04/stream/event-count".into(), format!("{here}: {} events delivered, {} expected", got_items.len(), want_items.len())));
    }
    out
}

// ---------------------------------------------------------------------------------------------------------
// layer "applied": indexed events land on the entity they name (state read back by internal name)
// ---------------------------------------------------------------------------------------------------------

fn check_applied(truth: &Truth, ix: &IndexedInstruments, x: ExchangeId, map: &ExecutionInstrumentMap, evals: &mut u64) -> Vec<Viol> {
    let mut out = Vec::new();
    let indexer = AccountEventIndexer::new(Arc::new(map.clone()));
    let Ok(base) = build_state(ix) else { return out }; // C11's subject
    let asset_key = |e: &Ent<AssetIndex>| ExchangeAsset::<AssetNameInternal>::new(e.ex, AssetNameInternal::new(e.name_int.as_str()));
    for (k, own) in truth.assets.iter().filter(|e| e.ex == x).enumerate() {
        let input = AccountEvent { exchange: x, kind: AccountEventKind::BalanceSnapshot(Snapshot(balance(AssetNameExchange::new(own.name_ex.as_str()), k as i64))) };
        let Ok(ev) = indexer.account_event(input) else { continue }; // reported by layer indexer
        let mut s = base.clone();
        *evals += 1;
        if let Err(p) = guarded(|| { s.update_from_account(&ev); }) {
            out.push(("C04/applied/balance/panics".into(), format!("{x} balance for {}: {p}", own.name_ex)));
            continue;
        }
        for other in &truth.assets {
            let before = base.assets.0.get(&asset_key(other)).and_then(|st| st.balance.as_ref().map(|b| b.value));
            let after = s.assets.0.get(&asset_key(other)).and_then(|st| st.balance.as_ref().map(|b| b.value));
            let is_target = other.ex == own.ex && other.name_int == own.name_int;
            let want = if is_target { Some(balance((), k as i64).balance) } else { before };
            if after != want {
                out.push(("C04/applied/balance/lands-on-other-entity".into(),
                    format!("{x} balance event naming {}: asset ({}, {}) holds {after:?}, expected {want:?}", own.name_ex, other.ex, other.name_int)));
            }
        }
    }
    for own in truth.instruments.iter().filter(|e| e.ex == x) {
        let n = InstrumentNameExchange::new(own.name_ex.as_str());
        let inputs = [
            ("order", AccountEvent { exchange: x, kind: AccountEventKind::OrderSnapshot(Snapshot(order(x, n.clone(), "ap", order_state(0, &AssetNameExchange::new("-"), &n)))) }),
            ("trade", AccountEvent { exchange: x, kind: AccountEventKind::Trade(trade(n.clone())) }),
        ];
        for (what, input) in inputs {
            let Ok(ev) = indexer.account_event(input) else { continue };
            let mut s = base.clone();
            *evals += 1;
            if let Err(p) = guarded(|| { s.update_from_account(&ev); }) {
                out.push((format!("C04/applied/{what}/panics"), format!("{x} {what} for {}: {p}", own.name_ex)));
                continue;
            }
            for other in &truth.instruments {
                let st = s.instruments.0.get(&InstrumentNameInternal::new(other.name_int.as_str()));
                let touched = st.map(|st| if what == "order" { st.orders.0.contains_key(&ClientOrderId::new("ap")) } else { st.position.current.is_some() });
                if touched != Some(other.name_int == own.name_int) {
                    out.push((format!("C04/applied/{what}/lands-on-other-entity"),
                        format!("{x} {what} event naming {}: instrument {} touched={touched:?}", own.name_ex, other.name_int)));
                }
            }
        }
    }
    // ---- a FULL account snapshot (names descending, a distinct balance per asset, one open order per instrument)
    // is indexed and applied in one go: every balance / order lands on the entity it names, nothing else moves
    let own_assets: Vec<&Ent<AssetIndex>> = truth.assets.iter().filter(|e| e.ex == x).sorted_by(|a, b| b.name_ex.cmp(&a.name_ex)).collect();
    let own_insts: Vec<&Ent<InstrumentIndex>> = truth.instruments.iter().filter(|e| e.ex == x).sorted_by(|a, b| b.name_ex.cmp(&a.name_ex)).collect();
    let input = AccountEvent {
        exchange: x,
        kind: AccountEventKind::Snapshot(AccountSnapshot {
            exchange: x,
            balances: own_assets.iter().enumerate().map(|(k, e)| balance(AssetNameExchange::new(e.name_ex.as_str()), 200 + k as i64)).collect(),
            instruments: own_insts.iter().map(|e| {
                let n = InstrumentNameExchange::new(e.name_ex.as_str());
                InstrumentAccountSnapshot { instrument: n.clone(), orders: vec![order(x, n.clone(), &format!("full-{}", e.name_int), order_state(0, &AssetNameExchange::new("-"), &n))] }
            }).collect(),
        }),
    };
    if let Ok(ev) = indexer.account_event(input) {
        let mut s = base.clone();
        *evals += 1;
        match guarded(|| { s.update_from_account(&ev); }) {
            Err(p) => out.push(("C04/applied/full-snapshot/panics".into(), format!("{x} full snapshot: {p}"))),
            Ok(()) => {
                for other in &truth.assets {
                    let before = base.assets.0.get(&asset_key(other)).and_then(|st| st.balance.as_ref().map(|b| b.value));
                    let after = s.assets.0.get(&asset_key(other)).and_then(|st| st.balance.as_ref().map(|b| b.value));
                    let named = own_assets.iter().position(|e| e.ex == other.ex && e.name_int == other.name_int);
                    let want = match named { Some(k) => Some(balance((), 200 + k as i64).balance), None => before };
                    if after != want {
                        out.push(("C04/applied/full-snapshot/balance-lands-on-other-entity".into(),
                            format!("{x} full snapshot: asset ({}, {}) holds {after:?}, expected {want:?}", other.ex, other.name_int)));
                    }
                }
                for other in &truth.instruments {
                    let got: Vec<String> = s.instruments.0.get(&InstrumentNameInternal::new(other.name_int.as_str()))
                        .map(|st| st.orders.0.keys().map(|c| c.0.to_string()).sorted().collect()).unwrap_or_default();
                    let want: Vec<String> = if other.ex == x { vec![format!("full-{}", other.name_int)] } else { vec![] };
                    if got != want {
                        out.push(("C04/applied/full-snapshot/order-lands-on-other-entity".into(),
                            format!("{x} full snapshot: instrument {} tracks orders {got:?}, expected {want:?}", other.name_int)));
                    }
                }
            }
        }
    }
    // ---- a cancel response removes the order of the instrument it names (and of no other): an order is opened on
    // every own instrument under the same client order id, then one cancel response is indexed and applied
    for own in truth.instruments.iter().filter(|e| e.ex == x) {
        let mut s = base.clone();
        let mut ready = true;
        for e in truth.instruments.iter().filter(|e| e.ex == x) {
            let open = AccountEvent { exchange: map.exchange.key, kind: AccountEventKind::OrderSnapshot(Snapshot(order(map.exchange.key, e.idx, "cx", order_state(0, &AssetIndex(0), &e.idx)))) };
            ready &= guarded(|| { s.update_from_account(&open); }).is_ok();
        }
        let n = InstrumentNameExchange::new(own.name_ex.as_str());
        let input = AccountEvent { exchange: x, kind: AccountEventKind::OrderCancelled(OrderEvent { key: key(x, n.clone(), "cx"), state: cancel_state(0, &AssetNameExchange::new("-"), &n) }) };
        let (true, Ok(ev)) = (ready, indexer.account_event(input)) else { continue };
        *evals += 1;
        if let Err(p) = guarded(|| { s.update_from_account(&ev); }) {
            out.push(("C04/applied/cancel/panics".into(), format!("{x} cancel response for {}: {p}", own.name_ex)));
            continue;
        }
        for other in truth.instruments.iter().filter(|e| e.ex == x) {
            let still = s.instruments.0.get(&InstrumentNameInternal::new(other.name_int.as_str())).map(|st| st.orders.0.contains_key(&ClientOrderId::new("cx")));
            if still != Some(other.name_int != own.name_int) {
                out.push(("C04/applied/cancel/lands-on-other-entity".into(),
                    format!("{x} cancel response naming {}: instrument {} still tracks the order: {still:?}", own.name_ex, other.name_int)));
            }
        }
    }
    out
}

// ---------------------------------------------------------------------------------------------------------
// driver
// ---------------------------------------------------------------------------------------------------------

fn eval_map_layer(menu: &[Def], pools: &Pools, seq: &[usize], only: Option<usize>, evals: &mut u64) -> Vec<(usize, Vec<Viol>)> {
    let defs: Vec<&Def> = seq.iter().map(|&i| &menu[i]).collect();
    let ix = build_indexed(seq, menu).expect("harness: C11 index table builds");
    let truth = Truth::new(&defs, &ix);
    (0..EX.len())
        .filter(|xp| only.is_none_or(|o| o == *xp))
        .map(|xp| {
            let mut n = 0u64;
            let v = guarded(|| check_map(&truth, &ix, EX[xp], pools, &mut n).0)
                .unwrap_or_else(|p| vec![("C04/map/lookup-panics".into(), format!("map of {}: {p}", EX[xp]))]);
            *evals += n;
            (xp, v)
        })
        .collect()
}

/// Result of the three deeper layers for one (set, exchange).
#[derive(Default)]
struct Deep {
    viols: Vec<(&'static str, Viol)>,
    /// lookups of the map layer for this (set, exchange) (counted by the caller only for the large menu)
    map_evals: u64,
    idx_evals: u64,
    mgr_runs: u64,
    app_evals: u64,
    stream_runs: u64,
    /// layers not judged because the layer they are built on already failed for this (set, exchange)
    gated: u64,
    /// informational: what the un-judged manager layer does with an own-instrument request (abstracted)
    consequences: BTreeSet<String>,
    map_fingerprint: String,
    sample: Value,
}

/// Layers indexer / manager / applied for one distinct set x exchange. To keep one defect from being reported
/// once per layer, a layer is judged only where the translation it is built on was found correct:
/// outbound `order_request` needs the map's index->name direction, the inbound kinds need name->index, the
/// manager needs both indexer directions, `applied` needs the inbound direction.
fn eval_deep(menu: &[Def], pools: &Pools, set: &[usize], xp: usize) -> Option<Deep> {
    eval_deep_with(menu, pools, pools, set, xp, true)
}

/// `pools_map`: names swept through the map's lookups (linear); `pools`: names of the combinatorial sweeps of the
/// layers above; `pairs`: also the two-request runs of the manager layer.
fn eval_deep_with(menu: &[Def], pools_map: &Pools, pools: &Pools, set: &[usize], xp: usize, pairs: bool) -> Option<Deep> {
    let defs: Vec<&Def> = set.iter().map(|&i| &menu[i]).collect();
    let ix = build_indexed(set, menu).expect("harness: C11 index table builds");
    let truth = Truth::new(&defs, &ix);
    let x = EX[xp];
    let mut scratch = 0u64;
    let (map_viols, map) = guarded(|| check_map(&truth, &ix, x, pools_map, &mut scratch))
        .unwrap_or_else(|p| (vec![("C04/map/lookup-panics".into(), format!("map of {x}: {p}"))], None));
    let Some(map) = map else {
        // exchange not part of this set (or its map cannot be built: reported)
        if map_viols.is_empty() {
            return None;
        }
        return Some(Deep { viols: map_viols.into_iter().map(|v| ("map", v)).collect(), ..Default::default() });
    };
    let dirty = |needle: &[&str]| map_viols.iter().any(|(sig, _)| needle.iter().any(|n| sig.contains(n)));
    let out_ok = !dirty(&["/index-to-name/", "/index-to-id/", "/lookup-panics"]);
    let in_ok = !dirty(&["/name-to-index/", "/id-to-index/", "/lookup-panics"]);
    let mut d = Deep {
        // the map layer for this set in canonical insertion order (sets larger than the permutation bound
        // are only seen here)
        viols: map_viols.iter().cloned().map(|v| ("map", v)).collect(),
        map_fingerprint: format!("{:?}|{:?}|{:?}|{:?}", map.exchange, map.assets, map.instruments,
            map.instrument_names.iter().map(|(k, v)| (k.name().to_string(), v.index())).sorted().collect::<Vec<_>>()),
        sample: json!({"set": set, "exchange": x.as_str(), "exchange_index": map.exchange.key.index(),
            "instruments": truth.instruments.iter().filter(|e| e.ex == x).map(|e| json!([e.idx.index(), e.name_ex])).collect::<Vec<_>>(),
            "assets": truth.assets.iter().filter(|e| e.ex == x).map(|e| json!([e.idx.index(), e.name_ex])).collect::<Vec<_>>()}),
        ..Default::default()
    };
    d.gated += (!out_ok) as u64 + (!in_ok) as u64;
    let mut n = 0u64;
    let idx_viols = guarded(|| check_indexer(&truth, &ix, x, &map, pools, out_ok, in_ok, &mut n))
        .unwrap_or_else(|p| vec![("C04/inbound/indexer-panics".into(), format!("indexer of {x}: {p}"))]);
    d.idx_evals = n;
    d.map_evals = scratch;
    if !out_ok {
        // not judged (the map layer already reported the cause); record what reaches the client end to end
        let rt = paused_rt();
        let _g = rt.enter();
        for own in truth.instruments.iter().filter(|e| e.ex == x) {
            let req = ExecutionRequest::Open(OrderEvent { key: key(map.exchange.key, own.idx, "note"), state: request_open() });
            let (log, _, panic) = drive_manager(x, &map, req, None);
            d.mgr_runs += 1;
            let abstracted = match (log.first(), panic) {
                (Some(Rec::Open { instrument, .. }), _) if *instrument == own.name_ex => continue,
                (Some(_), _) => "open for an own instrument reaches the client under ANOTHER instrument's exchange name".to_string(),
                (None, Some(p)) => format!("open for an own instrument never reaches the client; ExecutionManager::run panics: {}",
                    p.chars().filter(|c| !c.is_ascii_digit()).collect::<String>()),
                (None, None) => "open for an own instrument never reaches the client (silently dropped)".to_string(),
            };
            d.consequences.insert(abstracted);
        }
    }
    let out_clean = out_ok && !idx_viols.iter().any(|(sig, _)| sig.starts_with("C04/order-request/"));
    let in_clean = in_ok && !idx_viols.iter().any(|(sig, _)| sig.starts_with("C04/inbound/"));
    d.viols.extend(idx_viols.into_iter().map(|v| ("indexer", v)));
    if out_clean && in_clean {
        d.viols.extend(check_manager(&truth, &ix, x, &map, pairs, &mut d.mgr_runs).into_iter().map(|v| ("manager", v)));
    } else {
        d.gated += 1;
    }
    if in_clean {
        d.viols.extend(check_stream(&truth, x, &map, pools, &mut d.stream_runs).into_iter().map(|v| ("stream", v)));
        d.viols.extend(check_applied(&truth, &ix, x, &map, &mut d.app_evals).into_iter().map(|v| ("applied", v)));
    } else {
        d.gated += 1;
    }
    Some(d)
}

pub fn run(ctx: &Ctx) -> Outcome {
    install_quiet_hook();
    let max_perm: usize = ctx.tier.pick(5, 8);
    let map_evals = AtomicU64::new(0);
    let configs = AtomicU64::new(0);
    let distinct = Distinct::default();
    let samples = Samples::new(100_000); // candidates; sorted and cut to 6 below (deterministic under parallelism)
    let idx_evals = AtomicU64::new(0);
    let mgr_runs = AtomicU64::new(0);
    let app_evals = AtomicU64::new(0);
    let stream_runs = AtomicU64::new(0);
    let deep_cases = AtomicU64::new(0);
    let gated = AtomicU64::new(0);
    let consequences: Mutex<BTreeSet<String>> = Mutex::new(BTreeSet::new());

    for (tag, menu) in menus() {
        let pools = pools(&menu);
        // ---- layer map: every insertion order of every subset up to max_perm definitions
        for k in 1..=max_perm.min(menu.len()) {
            let perms: Vec<Vec<usize>> = (0..menu.len()).permutations(k).collect();
            perms.into_par_iter().for_each(|seq| {
                let mut n = 0u64;
                for (xp, viols) in eval_map_layer(&menu, &pools, &seq, None, &mut n) {
                    for (sig, detail) in viols {
                        ctx.violate(sig, detail, json!({"menu": tag, "layer": "map", "seq": seq, "exchange": xp}));
                    }
                }
                map_evals.fetch_add(n, Ordering::Relaxed);
                configs.fetch_add(1, Ordering::Relaxed);
            });
        }

        // ---- layers indexer / manager / stream / applied: every distinct set x every exchange it uses
        (1u32..(1 << menu.len())).into_par_iter().for_each(|mask| {
            let set: Vec<usize> = (0..menu.len()).filter(|i| mask & (1 << i) != 0).collect();
            for xp in 0..EX.len() {
                let Some(d) = eval_deep(&menu, &pools, &set, xp) else { continue };
                // distinct outcome = the translation table this exchange ended up with
                if !d.map_fingerprint.is_empty() {
                    distinct.add(&format!("{tag}|{}", d.map_fingerprint));
                    deep_cases.fetch_add(1, Ordering::Relaxed);
                }
                if mask % 37 == 5 && !d.sample.is_null() {
                    samples.offer(|| { let mut v = d.sample.clone(); v["menu"] = json!(tag); v });
                }
                for (layer, (sig, detail)) in d.viols {
                    let case = if layer == "map" { json!({"menu": tag, "layer": "map", "seq": set, "exchange": xp}) } else { json!({"menu": tag, "layer": layer, "set": set, "exchange": xp}) };
                    ctx.violate(sig, detail, case);
                }
                idx_evals.fetch_add(d.idx_evals, Ordering::Relaxed);
                mgr_runs.fetch_add(d.mgr_runs, Ordering::Relaxed);
                app_evals.fetch_add(d.app_evals, Ordering::Relaxed);
                stream_runs.fetch_add(d.stream_runs, Ordering::Relaxed);
                gated.fetch_add(d.gated, Ordering::Relaxed);
                consequences.lock().unwrap().extend(d.consequences);
            }
        });
    }

    // ---- the large menu: one configuration of 310 instruments, every exchange, every layer
    let large_instruments = menu_large().len();
    (0..EX.len()).into_par_iter().for_each(|xp| {
        let Some(d) = eval_large(xp) else { return };
        if !d.map_fingerprint.is_empty() {
            distinct.add(&format!("L|{}", d.map_fingerprint));
            deep_cases.fetch_add(1, Ordering::Relaxed);
        }
        for (layer, (sig, detail)) in d.viols {
            ctx.violate(sig, detail, json!({"menu": "L", "layer": layer, "exchange": xp}));
        }
        map_evals.fetch_add(d.map_evals, Ordering::Relaxed);
        configs.fetch_add(1, Ordering::Relaxed);
        idx_evals.fetch_add(d.idx_evals, Ordering::Relaxed);
        mgr_runs.fetch_add(d.mgr_runs, Ordering::Relaxed);
        app_evals.fetch_add(d.app_evals, Ordering::Relaxed);
        stream_runs.fetch_add(d.stream_runs, Ordering::Relaxed);
        gated.fetch_add(d.gated, Ordering::Relaxed);
        consequences.lock().unwrap().extend(d.consequences);
    });

    let total = map_evals.load(Ordering::Relaxed) + idx_evals.load(Ordering::Relaxed) + mgr_runs.load(Ordering::Relaxed) + app_evals.load(Ordering::Relaxed) + stream_runs.load(Ordering::Relaxed);
    Outcome {
        level: "exploration",
        coverage: json!({
            "evaluations": total,
            "menus": 3,
            "large_menu_instruments": large_instruments,
            "map_configurations": configs.load(Ordering::Relaxed),
            "map_lookups": map_evals.load(Ordering::Relaxed),
            "max_permutation_size": max_perm,
            "deep_cases_set_x_exchange": deep_cases.load(Ordering::Relaxed),
            "indexer_translations": idx_evals.load(Ordering::Relaxed),
            "manager_runs": mgr_runs.load(Ordering::Relaxed),
            "applied_events": app_evals.load(Ordering::Relaxed),
            "account_stream_runs": stream_runs.load(Ordering::Relaxed),
            "layers_not_judged_because_lower_layer_failed": gated.load(Ordering::Relaxed),
            "end_to_end_consequences_where_manager_layer_was_not_judged": consequences.lock().unwrap().iter().cloned().collect::<Vec<_>>(),
            "distinct_nontrivial": distinct.len(),
            "exhaustive": true,
            "rule": "a large collection (310 spot instruments 110/100/100 over 72 assets on the three exchanges, global indices beyond 255, one spelling shared by two exchanges) as one configuration through every layer (every index and every name through the map, a 24-definition sample of names through the combinatorial sweeps, single requests through the manager); and for each of two 8-definition menus (A: C11's - spot/perpetual/future/option, settlement-only and unit-only assets, shared names; B: names that differ between exchanges only by case, mixed case, prefix names, four instruments on one exchange): every insertion order of every subset (<= max_permutation_size) x every exchange's ExecutionInstrumentMap x every global index / pooled name / near-miss spelling of a pooled name (case, separators, blanks, one character more or less) / every ExchangeId there is through find_*; every distinct subset x exchange through AccountEventIndexer (outbound order_request for every (exchange index, instrument index); inbound kinds x every pooled exchange id / instrument name / asset name, the single-name kinds also x near-miss spellings and own names under every ExchangeId there is, incl. full snapshots whose wrapper / snapshot / inner order keys disagree), through ExecutionManager::run (one request per fresh manager for every instrument index; every ordered pair of requests for own instruments through ONE manager: {open,cancel}^2 x {same, distinct client order id} x {sequential, queued together}) and ExecutionManager::init's account stream with a recording / scripted stub client (paused runtime, manual polling) and through EngineState::update_from_account",
            "samples": samples.take().into_iter().sorted_by_key(|v| v.to_string()).take(6).collect::<Vec<_>>(),
        }),
        assumptions: vec![
            "the engine index of an entity is the one IndexedInstruments assigns (C11)".into(),
            "an exchange names an instrument / asset one way; exchange names may repeat across exchanges; a name is an opaque case-sensitive key (a name that differs from an exchange's own name only by case, by a separator, by surrounding blanks or by one character is not that exchange's name)".into(),
            "an event / key / snapshot is an exchange's only under exactly that exchange's ExchangeId: a sibling product id of the same venue, Mock, Simulated or Other is another exchange".into(),
            "the fate of an untranslatable request (error, panic, drop) is not prescribed; only that the client never receives it; likewise an index -> name lookup may refuse a foreign index by an error or by a panic".into(),
            "a full account snapshot is a collection: entries that do not name this exchange's entities must not translate; whether the snapshot is then refused as a whole or delivered without them is not prescribed (each delivered entry must be the right translation; the order of entries is free); a snapshot whose entries are all this exchange's must translate completely".into(),
            "a rejection (ApiError) inside an order event / client error that names an asset or instrument that is not this exchange's must not be translated to an index: the event may be refused or delivered with the rejection in a form that carries no key; error kinds are otherwise not judged for such inputs".into(),
            "a client order id identifies an order only together with its instrument (OrderKey): two requests with the same id for two instruments are two orders".into(),
            "the order in which the client sees two queued requests and the order of the two answers are not prescribed (compared as multisets)".into(),
            "two menus of 8 definitions over 3 exchanges swept by subsets, one menu of 310 definitions swept as a whole; stub client answers immediately (timeouts are C07's subject)".into(),
        ],
    }
}

pub fn replay(ctx: &Ctx, case: &Value) {
    install_quiet_hook();
    let tag = case["menu"].as_str().unwrap_or("A");
    if tag == "L" {
        let xp = case["exchange"].as_u64().unwrap_or(0) as usize;
        let layer = case["layer"].as_str().unwrap_or("");
        for (l, (sig, detail)) in eval_large(xp).map(|d| d.viols).unwrap_or_default() {
            if l == layer {
                ctx.violate(sig, detail, case.clone());
            }
        }
        return;
    }
    let Some((_, menu)) = menus().into_iter().find(|(t, _)| *t == tag) else {
        eprintln!("MACHINERY: unknown C04 replay menu {tag:?}");
        std::process::exit(2)
    };
    let pools = pools(&menu);
    let list = |k: &str| -> Vec<usize> {
        case[k].as_array().map(|a| a.iter().filter_map(|v| v.as_u64().map(|x| x as usize)).collect()).unwrap_or_default()
    };
    let xp = case["exchange"].as_u64().unwrap_or(0) as usize;
    let mut n = 0u64;
    let viols: Vec<Viol> = match case["layer"].as_str() {
        Some("map") => eval_map_layer(&menu, &pools, &list("seq"), Some(xp), &mut n).into_iter().flat_map(|(_, v)| v).collect(),
        Some(layer @ ("indexer" | "manager" | "stream" | "applied")) => eval_deep(&menu, &pools, &list("set"), xp)
            .map(|d| d.viols.into_iter().filter(|(l, _)| *l == layer).map(|(_, v)| v).collect())
            .unwrap_or_default(),
        other => {
            eprintln!("MACHINERY: unknown C04 replay layer {other:?}");
            std::process::exit(2)
        }
    };
    for (sig, detail) in viols {
        ctx.violate(sig, detail, case.clone());
    }
}
