//! Helpers shared by several property modules: a real `Engine` closed with scripted clock, strategy,
//! risk manager and execution links (all through the engine's own type parameters – no hooks).

use barter::{
    EngineEvent,
    engine::{
        Engine, Processor,
        clock::EngineClock,
        execution_tx::MultiExchangeTxMap,
        state::{
            EngineState,
            global::DefaultGlobalData,
            instrument::{data::DefaultInstrumentMarketData, filter::InstrumentFilter},
            trading::TradingState,
        },
    },
    execution::request::ExecutionRequest,
    risk::{RiskApproved, RiskManager, RiskRefused},
    strategy::{
        algo::AlgoStrategy,
        close_positions::{ClosePositionsStrategy, close_open_positions_with_market_orders},
        on_disconnect::OnDisconnectStrategy,
        on_trading_disabled::OnTradingDisabled,
    },
};
use barter_execution::order::{
    id::{ClientOrderId, StrategyId},
    request::{OrderRequestCancel, OrderRequestOpen},
};
use barter_instrument::{
    Underlying,
    asset::AssetIndex,
    exchange::{ExchangeId, ExchangeIndex},
    index::IndexedInstruments,
    instrument::{Instrument, InstrumentIndex},
};
use barter_integration::{Unrecoverable, channel::Tx};
use chrono::{DateTime, TimeDelta, Utc};
use std::sync::{Arc, Mutex};

pub type EState = EngineState<DefaultGlobalData, DefaultInstrumentMarketData>;
pub type STxMap = MultiExchangeTxMap<ScriptTx>;
pub type SEngine = Engine<ScriptClock, EState, STxMap, ScriptStrategy, ScriptRisk>;

pub fn t0() -> DateTime<Utc> {
    DateTime::<Utc>::from_timestamp(1_700_000_000, 0).unwrap()
}
pub fn t_plus(secs: i64) -> DateTime<Utc> {
    t0() + TimeDelta::seconds(secs)
}
pub fn t_plus_ms(ms: i64) -> DateTime<Utc> {
    t0() + TimeDelta::milliseconds(ms)
}

/// Deterministic engine clock: a counter advanced by one second per processed event.
#[derive(Debug, Clone, PartialEq)]
pub struct ScriptClock {
    pub now: DateTime<Utc>,
}
impl Default for ScriptClock {
    fn default() -> Self {
        Self { now: t0() }
    }
}
impl EngineClock for ScriptClock {
    fn time(&self) -> DateTime<Utc> {
        self.now
    }
}
impl<E> Processor<&E> for ScriptClock {
    type Audit = ();
    fn process(&mut self, _: &E) -> Self::Audit {
        self.now += TimeDelta::seconds(1);
    }
}

/// Strategy whose algo output is *environment*: the explorer sets `cancels`/`opens` before each event.
#[derive(Debug, Clone, Default)]
pub struct ScriptStrategy {
    pub id: StrategyId2,
    pub cancels: Vec<OrderRequestCancel<ExchangeIndex, InstrumentIndex>>,
    pub opens: Vec<OrderRequestOpen<ExchangeIndex, InstrumentIndex>>,
    /// every `on_disconnect` call, in order
    pub disconnects: Vec<ExchangeId>,
    pub disabled_calls: u32,
    /// number of times the engine consulted `generate_algo_orders`
    pub algo_calls: Arc<Mutex<u32>>,
}

/// newtype so Default gives a fixed id
#[derive(Debug, Clone)]
pub struct StrategyId2(pub StrategyId);
impl Default for StrategyId2 {
    fn default() -> Self {
        Self(StrategyId::new("vcheck"))
    }
}

pub fn strategy_id() -> StrategyId {
    StrategyId::new("vcheck")
}

impl AlgoStrategy for ScriptStrategy {
    type State = EState;
    fn generate_algo_orders(
        &self,
        _state: &Self::State,
    ) -> (
        impl IntoIterator<Item = OrderRequestCancel<ExchangeIndex, InstrumentIndex>>,
        impl IntoIterator<Item = OrderRequestOpen<ExchangeIndex, InstrumentIndex>>,
    ) {
        *self.algo_calls.lock().unwrap() += 1;
        (self.cancels.clone(), self.opens.clone())
    }
}

impl ClosePositionsStrategy for ScriptStrategy {
    type State = EState;
    fn close_positions_requests<'a>(
        &'a self,
        state: &'a Self::State,
        filter: &'a InstrumentFilter<ExchangeIndex, AssetIndex, InstrumentIndex>,
    ) -> (
        impl IntoIterator<Item = OrderRequestCancel<ExchangeIndex, InstrumentIndex>> + 'a,
        impl IntoIterator<Item = OrderRequestOpen<ExchangeIndex, InstrumentIndex>> + 'a,
    )
    where
        ExchangeIndex: 'a,
        AssetIndex: 'a,
        InstrumentIndex: 'a,
    {
        close_open_positions_with_market_orders(&self.id.0, state, filter, |state| {
            ClientOrderId::new(format!("close-{}", state.key.index()))
        })
    }
}

impl<C, S, T, R> OnDisconnectStrategy<C, S, T, R> for ScriptStrategy {
    type OnDisconnect = ExchangeId;
    fn on_disconnect(engine: &mut Engine<C, S, T, Self, R>, exchange: ExchangeId) -> ExchangeId {
        engine.strategy.disconnects.push(exchange);
        exchange
    }
}

impl<C, S, T, R> OnTradingDisabled<C, S, T, R> for ScriptStrategy {
    type OnTradingDisabled = u32;
    fn on_trading_disabled(engine: &mut Engine<C, S, T, Self, R>) -> u32 {
        engine.strategy.disabled_calls += 1;
        engine.strategy.disabled_calls
    }
}

/// Risk manager whose verdict is environment.
#[derive(Debug, Clone, Default)]
pub struct ScriptRisk {
    pub refuse_opens: bool,
    pub refuse_cancels: bool,
}

impl RiskManager for ScriptRisk {
    type State = EState;
    fn check(
        &self,
        _: &Self::State,
        cancels: impl IntoIterator<Item = OrderRequestCancel<ExchangeIndex, InstrumentIndex>>,
        opens: impl IntoIterator<Item = OrderRequestOpen<ExchangeIndex, InstrumentIndex>>,
    ) -> (
        impl IntoIterator<Item = RiskApproved<OrderRequestCancel<ExchangeIndex, InstrumentIndex>>>,
        impl IntoIterator<Item = RiskApproved<OrderRequestOpen<ExchangeIndex, InstrumentIndex>>>,
        impl IntoIterator<Item = RiskRefused<OrderRequestCancel<ExchangeIndex, InstrumentIndex>>>,
        impl IntoIterator<Item = RiskRefused<OrderRequestOpen<ExchangeIndex, InstrumentIndex>>>,
    ) {
        let cancels: Vec<_> = cancels.into_iter().collect();
        let opens: Vec<_> = opens.into_iter().collect();
        let (ca, cr): (Vec<_>, Vec<_>) = if self.refuse_cancels {
            (vec![], cancels.into_iter().map(|c| RiskRefused::new(c, "script")).collect())
        } else {
            (cancels.into_iter().map(RiskApproved::new).collect(), vec![])
        };
        let (oa, or): (Vec<_>, Vec<_>) = if self.refuse_opens {
            (vec![], opens.into_iter().map(|o| RiskRefused::new(o, "script")).collect())
        } else {
            (opens.into_iter().map(RiskApproved::new).collect(), vec![])
        };
        (ca, oa, cr, or)
    }
}

#[derive(Debug, Clone, Copy, PartialEq, Eq, Hash, serde::Serialize, serde::Deserialize)]
pub enum TxMode {
    /// delivers
    Healthy,
    /// receiver dropped: unrecoverable send error
    Closed,
    /// recoverable send error (link present but unhealthy)
    Unhealthy,
}

#[derive(Debug)]
pub struct ScriptTxError {
    pub unrecoverable: bool,
}
impl Unrecoverable for ScriptTxError {
    fn is_unrecoverable(&self) -> bool {
        self.unrecoverable
    }
}

/// Execution link that records every delivery.
#[derive(Debug, Clone)]
pub struct ScriptTx {
    pub log: Arc<Mutex<Vec<ExecutionRequest>>>,
    pub mode: TxMode,
}
impl ScriptTx {
    pub fn new(mode: TxMode) -> Self {
        Self { log: Arc::new(Mutex::new(Vec::new())), mode }
    }
    pub fn take(&self) -> Vec<ExecutionRequest> {
        std::mem::take(&mut *self.log.lock().unwrap())
    }
    pub fn len(&self) -> usize {
        self.log.lock().unwrap().len()
    }
}
impl Tx for ScriptTx {
    type Item = ExecutionRequest;
    type Error = ScriptTxError;
    fn send<Item: Into<Self::Item>>(&self, item: Item) -> Result<(), Self::Error> {
        match self.mode {
            TxMode::Healthy => {
                self.log.lock().unwrap().push(item.into());
                Ok(())
            }
            TxMode::Closed => Err(ScriptTxError { unrecoverable: true }),
            TxMode::Unhealthy => Err(ScriptTxError { unrecoverable: false }),
        }
    }
}

/// Exchanges used by the engine-level harnesses, in `ExchangeId` sort order (so ExchangeIndex(i) is
/// `EXCHANGES[i]` when all are used).
pub const EXCHANGES: [ExchangeId; 3] = [ExchangeId::BinanceSpot, ExchangeId::Kraken, ExchangeId::Okx];

/// (exchange, name_internal, name_exchange, base, quote)
pub fn spot(ex: ExchangeId, internal: &str, name_ex: &str, base: &str, quote: &str) -> Instrument<ExchangeId, barter_instrument::asset::Asset> {
    Instrument::spot(ex, internal, name_ex, Underlying::new(base, quote), None)
}

pub struct Links {
    /// per exchange (in IndexedInstruments exchange order): the link, if any
    pub txs: Vec<(ExchangeId, Option<ScriptTx>)>,
}

/// Build a real engine over `instruments` with scripted seams. `link_modes[i]` = None means the
/// exchange is tracked but has no execution link.
pub fn build_engine(
    instruments: &IndexedInstruments,
    trading: TradingState,
    link_modes: &[Option<TxMode>],
) -> (SEngine, Links) {
    let state = EngineState::builder(instruments, DefaultGlobalData, DefaultInstrumentMarketData::default)
        .time_engine_start(t0())
        .trading_state(trading)
        .build();
    let mut txs = Vec::new();
    for (i, ex) in instruments.exchanges().iter().enumerate() {
        let mode = link_modes.get(i).copied().unwrap_or(Some(TxMode::Healthy));
        txs.push((ex.value, mode.map(ScriptTx::new)));
    }
    let map = MultiExchangeTxMap::from_iter(txs.iter().map(|(e, t)| (*e, t.clone())));
    let engine = Engine::new(
        ScriptClock::default(),
        state,
        map,
        ScriptStrategy::default(),
        ScriptRisk::default(),
    );
    (engine, Links { txs })
}

pub type Event = EngineEvent<barter_data::event::DataKind>;
