//! C06, layer "stream initialisation": the real `ExchangeWsStream::<BinanceSpotOrderBooksL2Transformer>::
//! init` and `ExchangeWsStream::<BinanceFuturesUsdOrderBooksL2Transformer>::init` (connect, subscribe,
//! validate, fetch snapshot, initialise the sequencer, replay the messages buffered during subscription
//! validation) against a scripted venue on loopback - once per rule set (the URL hook applies to every
//! Binance server).
//!
//! What is enumerated (exhaustively, sequentially, one fresh connection per execution):
//!   * K atomic book changes with ids 1..K, one depth update per id (U = u = id), delivered over the
//!     socket in order (a gap-free in-order delivery), optionally starting late at id 2;
//!   * the subscription is confirmed before any update is sent (as Binance does);
//!   * the REST snapshot point S in 0..=K (the snapshot may lag or lead the socket);
//!   * (second hardening round) optionally a SECOND instrument subscribed on the same connection - "across several
//!     instruments on one connection" - with its own book evolution, its own start (id 1 or 2) and its own
//!     snapshot point; the updates of the two instruments alternate on the socket. One local book per instrument;
//!     every instrument must get its snapshot; the consumer's connection ends at the first sequence error.
//! The consumer applies the events the stream yields, in order, exactly like `OrderBookL2Manager`
//! does (snapshot replaces, update upserts). Oracle (the statement): once the consumer has applied the
//! snapshot, its book equals the venue's book as of the sequence it reports unless the stream has
//! yielded a terminal sequence error; a gap-free in-order delivery that contains the update covering the
//! snapshot (spot: first id <= S+1; futures: first id <= S, the update with u = S is the covering one) never
//! errors; a delivery that starts beyond the covering update (spot: first id > S+1; futures: first id > S)
//! is a break and must yield the sequence error.
//!
//! Needs the hook `--cfg barter_rs_barter_rs_verif` (Binance WebSocket URL override) – the only hook
//! of this framework.

use crate::core::Ctx;
use barter_data::{
    ExchangeWsStream, MarketStream, SnapshotFetcher,
    books::OrderBook,
    error::DataError,
    event::MarketEvent,
    exchange::binance::{
        book::l2::BinanceOrderBookL2Snapshot,
        futures::{BinanceFuturesUsd, l2::BinanceFuturesUsdOrderBooksL2Transformer},
        spot::{BinanceSpot, l2::BinanceSpotOrderBooksL2Transformer},
    },
    instrument::InstrumentData,
    subscription::{
        Subscription,
        book::{OrderBookEvent, OrderBooksL2},
    },
};
use barter_instrument::{
    exchange::ExchangeId,
    instrument::market_data::{MarketDataInstrument, kind::MarketDataInstrumentKind},
};
use barter_integration::error::SocketError;
use futures::{SinkExt, StreamExt};
use rust_decimal::Decimal;
use serde_json::{Value, json};
use std::{
    collections::BTreeMap,
    sync::Mutex,
    time::Duration,
};

const K: u64 = 4;

const MARKETS: [&str; 2] = ["BTCUSDT", "ETHUSDT"];
const BASES: [&str; 2] = ["btc", "eth"];

/// change i of instrument `inst`: (is_bid, price, amount). Instrument 0: change 4 overwrites the level of change 1,
/// change 3 deletes 2's. Instrument 1 (the second subscription of the two-instrument scripts) moves other prices, so
/// that a level applied to the wrong book or a snapshot paired with the wrong instrument shows.
fn change(inst: usize, i: u64) -> (bool, u32, u32) {
    match (inst, i) {
        (0, 1) => (false, 101, 1),
        (0, 2) => (true, 99, 2),
        (0, 3) => (true, 99, 0),
        (0, 4) => (false, 101, 4),
        (1, 1) => (true, 1999, 5),
        (1, 2) => (false, 2001, 6),
        (1, 3) => (true, 1999, 7),
        (1, 4) => (false, 2001, 0),
        _ => unreachable!(),
    }
}

/// venue book of instrument `inst` as of id n: (bids, asks) price -> amount
fn venue_book(inst: usize, n: u64) -> (BTreeMap<u32, u32>, BTreeMap<u32, u32>) {
    // base levels present since before id 1 so the snapshot is never empty
    let (mut bids, mut asks) = if inst == 0 {
        (BTreeMap::from([(90u32, 9u32)]), BTreeMap::from([(110u32, 9u32)]))
    } else {
        (BTreeMap::from([(1900u32, 3u32)]), BTreeMap::from([(2100u32, 3u32)]))
    };
    for i in 1..=n {
        let (is_bid, p, a) = change(inst, i);
        let side = if is_bid { &mut bids } else { &mut asks };
        if a == 0 {
            side.remove(&p);
        } else {
            side.insert(p, a);
        }
    }
    (bids, asks)
}

fn levels_json(m: &BTreeMap<u32, u32>) -> Vec<Value> {
    m.iter().map(|(p, a)| json!([format!("{p}.00"), format!("{a}.000")])).collect()
}

fn snapshot_json_of(futures: bool, inst: usize, s: u64) -> String {
    let (b, a) = venue_book(inst, s);
    let mut v = json!({"lastUpdateId": s, "bids": levels_json(&b), "asks": levels_json(&a)});
    if futures {
        v["E"] = json!(1_589_436_922_972u64);
        v["T"] = json!(1_589_436_922_959u64);
    }
    v.to_string()
}
fn snapshot_json(futures: bool, s: u64) -> String {
    snapshot_json_of(futures, 0, s)
}

fn update_json_of(futures: bool, inst: usize, i: u64) -> String {
    let (is_bid, p, a) = change(inst, i);
    let lvl = json!([[format!("{p}.00"), format!("{a}.000")]]);
    let (b, a_) = if is_bid { (lvl, json!([])) } else { (json!([]), lvl) };
    let mut v = json!({"e": "depthUpdate", "E": 1_671_656_397_761u64 + i, "s": MARKETS[inst], "U": i, "u": i, "b": b, "a": a_});
    if futures {
        v["T"] = json!(1_671_656_397_760u64 + i);
        v["pu"] = json!(i - 1);
    }
    v.to_string()
}
fn update_json(futures: bool, i: u64) -> String {
    update_json_of(futures, 0, i)
}

/// the scripted REST answers of the current execution: market name -> snapshot payload
static SNAPSHOT: Mutex<BTreeMap<String, String>> = Mutex::new(BTreeMap::new());

struct ScriptFetcher;

macro_rules! script_fetcher {
    ($Exchange:ty, $id:expr) => {
        impl SnapshotFetcher<$Exchange, OrderBooksL2> for ScriptFetcher {
            fn fetch_snapshots<Instrument>(
                subscriptions: &[Subscription<$Exchange, Instrument, OrderBooksL2>],
            ) -> impl Future<Output = Result<Vec<MarketEvent<Instrument::Key, OrderBookEvent>>, SocketError>> + Send
            where
                Instrument: InstrumentData,
                Subscription<$Exchange, Instrument, OrderBooksL2>: barter_data::Identifier<barter_data::exchange::binance::market::BinanceMarket>,
            {
                let texts = SNAPSHOT.lock().unwrap().clone();
                let events = subscriptions
                    .iter()
                    .map(|sub| {
                        let market: barter_data::exchange::binance::market::BinanceMarket = barter_data::Identifier::id(sub);
                        let text = texts.get(market.0.as_str()).expect("snapshot script set for the subscribed market");
                        let snap: BinanceOrderBookL2Snapshot = serde_json::from_str(text).expect("snapshot json");
                        MarketEvent::from(($id, sub.instrument.key().clone(), snap))
                    })
                    .collect::<Vec<_>>();
                std::future::ready(Ok(events))
            }
        }
    };
}
script_fetcher!(BinanceSpot, ExchangeId::BinanceSpot);
script_fetcher!(BinanceFuturesUsd, ExchangeId::BinanceFuturesUsd);

/// The consumer side of one execution: the real `init` for one rule set, then every item the stream yields.
macro_rules! client_events {
    ($Exchange:ty, $Transformer:ident, $kind:expr, $instruments:expr) => {
        async {
            let subs: Vec<_> = BASES[..$instruments].iter().map(|base| Subscription::new(<$Exchange>::default(), MarketDataInstrument::from((*base, "usdt", $kind)), OrderBooksL2)).collect();
            let mut stream = tokio::time::timeout(
                Duration::from_secs(20),
                <ExchangeWsStream<$Transformer<MarketDataInstrument>> as MarketStream<$Exchange, MarketDataInstrument, OrderBooksL2>>::init::<ScriptFetcher>(&subs),
            )
            .await
            .map_err(|_| "init timed out".to_string())?
            .map_err(|e| format!("init failed (is the harness built with --cfg barter_rs_barter_rs_verif?): {e}"))?;
            let mut events: Vec<Result<MarketEvent<MarketDataInstrument, OrderBookEvent>, DataError>> = Vec::new();
            loop {
                match tokio::time::timeout(Duration::from_secs(10), stream.next()).await {
                    Ok(Some(item)) => events.push(item),
                    Ok(None) => break,
                    Err(_) => return Err("stream neither yielded nor ended within 10 s".to_string()),
                }
            }
            Ok::<_, String>(events)
        }
    };
}

#[derive(Debug, Clone)]
struct Script {
    futures: bool,
    first: u64,
    pre: u64,
    snapshot: u64,
    /// a second instrument subscribed on the same connection: (id of its first delivered update, its snapshot
    /// point); its updates alternate with the first instrument's on the socket
    second: Option<(u64, u64)>,
}

fn book_as_maps(book: &OrderBook) -> (BTreeMap<Decimal, Decimal>, BTreeMap<Decimal, Decimal>) {
    (
        book.bids().levels().iter().map(|l| (l.price, l.amount)).collect(),
        book.asks().levels().iter().map(|l| (l.price, l.amount)).collect(),
    )
}

fn venue_as_maps(n: u64) -> (BTreeMap<Decimal, Decimal>, BTreeMap<Decimal, Decimal>) {
    venue_as_maps_of(0, n)
}
fn venue_as_maps_of(inst: usize, n: u64) -> (BTreeMap<Decimal, Decimal>, BTreeMap<Decimal, Decimal>) {
    let (b, a) = venue_book(inst, n);
    let f = |m: BTreeMap<u32, u32>| m.into_iter().map(|(p, a)| (Decimal::from(p), Decimal::from(a))).collect();
    (f(b), f(a))
}

pub struct InitStats {
    pub executions: u64,
    pub distinct_outcomes: usize,
    pub events: u64,
    pub samples: Vec<Value>,
}

/// Runs the layer; reports violations through ctx. Returns Err(text) on machinery failure.
pub fn run(ctx: &Ctx) -> Result<InitStats, String> {
    let rt = tokio::runtime::Builder::new_current_thread().enable_all().build().map_err(|e| e.to_string())?;
    let mut outcomes = std::collections::BTreeSet::new();
    let mut stats = InitStats { executions: 0, distinct_outcomes: 0, events: 0, samples: vec![] };
    // `pre` (updates sent before the subscription is confirmed) is fixed to 0: Binance confirms a
    // SUBSCRIBE request with exactly one response and sends no stream data before it, and the
    // subscriber only buffers messages that arrive after the first confirmation - so for Binance the
    // buffered-events path cannot carry depth updates. (A first version of this layer also sent
    // updates before the confirmation; the subscriber drops those, the sequencer then reports the gap,
    // and the layer flagged a "spurious error" - a false alarm caused by an unrealistic venue script,
    // corrected here.)
    let mut scripts: Vec<Script> = [false, true]
        .into_iter()
        .flat_map(|futures| [1u64, 2u64].into_iter().flat_map(move |first| (0..=K).map(move |snapshot| Script { futures, first, pre: 0, snapshot, second: None })))
        .collect();
    // "across several instruments on one connection": the same deliveries with a second instrument subscribed on
    // the connection - its own book evolution, its own snapshot point (behind, at, ahead of the socket), its own
    // start (in order / late); the updates of the two instruments alternate on the socket
    for futures in [false, true] {
        for first in [1u64, 2] {
            for snapshot in 0..=K {
                for (first2, snapshot2) in [(1u64, 0u64), (1, 2), (1, 4), (2, 0), (2, 1), (2, 3)] {
                    scripts.push(Script { futures, first, pre: 0, snapshot, second: Some((first2, snapshot2)) });
                }
            }
        }
    }

    let result: Result<(), String> = rt.block_on(async {
        let listener = tokio::net::TcpListener::bind("127.0.0.1:0").await.map_err(|e| format!("bind: {e}"))?;
        let port = listener.local_addr().map_err(|e| e.to_string())?.port();
        // SAFETY: single writer before any connector reads it; worker threads are idle here.
        unsafe { std::env::set_var("BARTER_VERIF_BINANCE_WS_URL", format!("ws://127.0.0.1:{port}")) };

        for sc in &scripts {
            let n_inst = if sc.second.is_some() { 2usize } else { 1 };
            // per instrument: (id of the first delivered update, snapshot point)
            let plan: Vec<(u64, u64)> = std::iter::once((sc.first, sc.snapshot)).chain(sc.second).collect();
            *SNAPSHOT.lock().unwrap() = plan.iter().enumerate().map(|(i, (_, s))| (MARKETS[i].to_string(), snapshot_json_of(sc.futures, i, *s))).collect();
            let r = if sc.futures { "futures" } else { "spot" };
            let sc_server = sc.clone();
            let plan_server = plan.clone();
            // scripted venue for this one connection
            let server = async {
                let (stream, _) = listener.accept().await.map_err(|e| format!("accept: {e}"))?;
                let mut ws = tokio_tungstenite::accept_async(stream).await.map_err(|e| format!("ws accept: {e}"))?;
                // the subscribe request
                let req = ws.next().await.ok_or("no subscribe request")?.map_err(|e| format!("ws read: {e}"))?;
                let req_text = req.into_text().map_err(|e| e.to_string())?.to_string();
                if !req_text.contains("btcusdt@depth") || (plan_server.len() == 2 && !req_text.contains("ethusdt@depth")) {
                    return Err(format!("unexpected subscribe request {req_text}"));
                }
                let send = |t: String| tokio_tungstenite::tungstenite::Message::text(t);
                let last = K;
                let mut next: Vec<u64> = plan_server.iter().map(|p| p.0).collect();
                for _ in 0..sc_server.pre {
                    ws.send(send(update_json(sc_server.futures, next[0]))).await.map_err(|e| e.to_string())?;
                    next[0] += 1;
                }
                ws.send(send(r#"{"result":null,"id":1}"#.to_string())).await.map_err(|e| e.to_string())?;
                // the instruments' updates alternate
                while next.iter().any(|id| *id <= last) {
                    for inst in 0..next.len() {
                        if next[inst] <= last {
                            ws.send(send(update_json_of(sc_server.futures, inst, next[inst]))).await.map_err(|e| e.to_string())?;
                            next[inst] += 1;
                        }
                    }
                }
                let _ = ws.close(None).await;
                // drain until the peer is gone
                while let Some(Ok(_)) = ws.next().await {}
                Ok::<(), String>(())
            };
            let client = async {
                if sc.futures {
                    client_events!(BinanceFuturesUsd, BinanceFuturesUsdOrderBooksL2Transformer, MarketDataInstrumentKind::Perpetual, n_inst).await
                } else {
                    client_events!(BinanceSpot, BinanceSpotOrderBooksL2Transformer, MarketDataInstrumentKind::Spot, n_inst).await
                }
            };
            let (srv, cli) = tokio::join!(server, client);
            srv?;
            let events = cli?;
            stats.executions += 1;
            stats.events += events.len() as u64;

            // the consumer: one local book per subscribed instrument
            let mut books: Vec<OrderBook> = vec![OrderBook::default(); n_inst];
            let mut have_snapshot = vec![false; n_inst];
            let mut got_update = vec![false; n_inst];
            let mut told_invalid = false;
            let mut trace = Vec::new();
            // does the delivery first..=K of an instrument contain the update that covers its snapshot (or nothing newer
            // at all)?
            let covering: Vec<bool> = plan.iter().map(|(first, snap)| if sc.futures { first <= snap } else { *first <= snap + 1 }).collect();
            let covering_delivered = covering.iter().all(|c| *c);
            let mut case = json!({"engine": "c06-init", "rules": r, "first_update_id": sc.first, "updates_before_subscription_confirmed": sc.pre, "snapshot_last_update_id": sc.snapshot, "updates": K});
            if let Some((first2, snapshot2)) = sc.second {
                case["second_instrument"] = json!({"first_update_id": first2, "snapshot_last_update_id": snapshot2});
            }
            let tag = |i: usize| if n_inst == 1 { String::new() } else { format!("{}:", BASES[i]) };
            for ev in events {
                match ev {
                    Ok(ev) => {
                        let Some(i) = BASES[..n_inst].iter().position(|b| ev.instrument.base.as_ref() == *b) else {
                            ctx.violate(
                                format!("C06/{r}/init/event-for-unsubscribed-instrument"),
                                format!("script {sc:?}: event names instrument {:?}; events {trace:?}", ev.instrument),
                                case.clone(),
                            );
                            break;
                        };
                        match &ev.kind {
                            OrderBookEvent::Snapshot(s) => {
                                trace.push(format!("{}S{}", tag(i), s.sequence));
                                have_snapshot[i] = true;
                            }
                            OrderBookEvent::Update(u) => {
                                trace.push(format!("{}U{}", tag(i), u.sequence));
                                got_update[i] = true;
                            }
                        }
                        books[i].update(ev.kind.clone());
                        if have_snapshot[i] && !told_invalid {
                            let seq = books[i].sequence;
                            if seq > K || book_as_maps(&books[i]) != venue_as_maps_of(i, seq) {
                                let own: Vec<&String> = trace.iter().filter(|t| n_inst == 1 || t.starts_with(&tag(i))).collect();
                                let order = if own.iter().position(|t| t.trim_start_matches(&tag(i)).starts_with('S')).is_some_and(|p| p > 0) {
                                    "update-emitted-before-snapshot"
                                } else {
                                    "after-snapshot"
                                };
                                ctx.violate(
                                    format!("C06/{r}/init/book-differs-from-venue-book-at-reported-sequence/{order}"),
                                    format!(
                                        "script {sc:?}: events {trace:?}; local book of {} at sequence {seq} = {:?}, venue book at {seq} = {:?}",
                                        MARKETS[i],
                                        book_as_maps(&books[i]),
                                        venue_as_maps_of(i, seq.min(K))
                                    ),
                                    case.clone(),
                                );
                                break;
                            }
                        }
                    }
                    // "surfaces as a terminal sequence error that forces re-initialisation": the statement names no
                    // enum variant - every error that `is_terminal()` (the predicate `init_market_stream` ends the
                    // connection on) tells the consumer that the book is invalid; `InvalidSequence` is kept by name so
                    // that a sequence error that lost its terminal flag still ends the consumer's connection here
                    // (the transformer layer reports that it is not terminal)
                    Err(e) if e.is_terminal() || matches!(e, DataError::InvalidSequence { .. }) => {
                        trace.push("E-seq".into());
                        told_invalid = true;
                        if covering_delivered {
                            ctx.violate(
                                format!("C06/{r}/init/in-order-delivery-errors"),
                                format!("script {sc:?}: gap-free in-order delivery containing the update that covers the snapshot (for every subscribed instrument) produced a sequence error; events {trace:?}"),
                                case.clone(),
                            );
                        }
                        // (the sequence error is terminal: the consumer's connection ends here)
                        break;
                    }
                    Err(other) => {
                        // socket closed by the scripted venue at the end of the script etc.
                        trace.push(format!("E-other({})", if other.is_terminal() { "terminal" } else { "non-terminal" }));
                    }
                }
            }
            let any_snapshot = have_snapshot.iter().any(|h| *h);
            if any_snapshot && !covering_delivered && !told_invalid {
                ctx.violate(
                    format!("C06/{r}/init/break-at-chain-start-not-surfaced"),
                    format!("script {sc:?}: the delivery starts beyond the update that covers the snapshot, yet no sequence error was yielded; events {trace:?}"),
                    case.clone(),
                );
            }
            if !any_snapshot {
                ctx.violate(
                    format!("C06/{r}/init/snapshot-never-emitted"),
                    format!("script {sc:?}: events {trace:?}"),
                    case.clone(),
                );
            } else if let Some(i) = (0..n_inst).find(|i| !have_snapshot[*i] && (got_update[*i] || !told_invalid)) {
                // one of several instruments never got its snapshot, yet its updates were yielded / the connection
                // went on: the consumer has nothing to apply them to and has not been told so
                ctx.violate(
                    format!("C06/{r}/init/snapshot-never-emitted/one-of-several-instruments"),
                    format!("script {sc:?}: no snapshot for {} was yielded; events {trace:?}", MARKETS[i]),
                    case.clone(),
                );
            }
            outcomes.insert(format!("{r}:{}", trace.join(",")));
            if stats.samples.len() < 4 || (sc.second.is_some() && stats.samples.len() < 6) {
                stats.samples.push(json!({"script": case, "events": trace}));
            }
        }
        Ok(())
    });
    result?;
    stats.distinct_outcomes = outcomes.len();
    Ok(stats)
}

// =================================================================================================
// Layer "re-initialisation": the real `barter_data::streams::consumer::init_market_stream` (the
// composition init_reconnecting_stream -> with_reconnect_backoff -> with_termination_on_error(is_terminal)
// -> with_reconnection_events around `ExchangeWsStream::init`) with the real Binance spot L2
// transformer, against a scripted venue on loopback.
//
// `init_market_stream` takes its snapshot fetcher from the exchange type (`StreamSelector`), and Binance's
// fetches over REST from a constant URL - unreachable here. So the layer runs it for a harness-defined
// exchange type `ScriptBinance` whose `Connector` speaks Binance's subscription protocol to the loopback
// venue, whose `StreamSelector` names a scripted snapshot fetcher, and whose transformer is a newtype that
// delegates `init` and `transform` to the REAL `BinanceSpotOrderBooksL2Transformer` (sequencers included).
// Everything between the socket and the consumer is real code; only subscription naming (C13's subject) and
// the REST fetch are harness code.
//
// Script: connection 1: snapshot at id 0, updates 1, 3, 4 (3 leaves a gap), connection held open;
//         connection 2 (if the stream re-initialises): snapshot at id 2, updates 2, 3, 4 in order.
// Oracle (statement: "any break surfaces as a terminal sequence error that forces re-initialisation ...
// the book either equals the exchange's book as of the sequence number it reports or the consumer has been
// told it is invalid"):
//   * the gap is followed by a re-initialisation: a second snapshot arrives (how the consumer is told - a
//     sequence error item, a reconnect notice, or both - is left open); a stream that ends instead, or stays
//     silent for 30 s although the venue is up, has not re-initialised;
//   * if a sequence error ITEM is yielded, the NEXT ITEM is the snapshot of the new initialisation (reconnect
//     notices are skipped): another update or error of the old connection means the error did not end it;
//   * while not told invalid (no sequence error item / reconnect notice since the last snapshot) the
//     consumer's book equals the venue's book at the sequence it reports, on both connections;
//   * the in-order delivery of the second connection never errors.
// =================================================================================================

use barter_data::{
    exchange::{Connector, StreamSelector, subscription::ExchangeSub, binance::{spot::l2::BinanceSpotOrderBookL2Update, subscription::BinanceSubResponse}},
    streams::{consumer::init_market_stream, reconnect::{Event, stream::ReconnectionBackoffPolicy}},
    subscriber::{WebSocketSubscriber, validator::WebSocketSubValidator},
    subscription::Map,
    transformer::ExchangeTransformer,
};
use barter_integration::{Transformer, protocol::websocket::WsMessage};
use std::collections::VecDeque;

#[derive(Copy, Clone, Eq, PartialEq, Ord, PartialOrd, Hash, Debug, Default, serde::Deserialize, serde::Serialize)]
pub struct ScriptBinance;

pub struct Ch(&'static str);
impl AsRef<str> for Ch {
    fn as_ref(&self) -> &str {
        self.0
    }
}
pub struct Mk(String);
impl AsRef<str> for Mk {
    fn as_ref(&self) -> &str {
        &self.0
    }
}
// the names Binance uses (the real ones are C13's subject): channel "@depth@100ms", market "BTCUSDT"
impl barter_data::Identifier<Ch> for Subscription<ScriptBinance, MarketDataInstrument, OrderBooksL2> {
    fn id(&self) -> Ch {
        Ch("@depth@100ms")
    }
}
impl barter_data::Identifier<Mk> for Subscription<ScriptBinance, MarketDataInstrument, OrderBooksL2> {
    fn id(&self) -> Mk {
        Mk(format!("{}{}", self.instrument.base, self.instrument.quote).to_uppercase())
    }
}

impl Connector for ScriptBinance {
    const ID: ExchangeId = ExchangeId::BinanceSpot;
    type Channel = Ch;
    type Market = Mk;
    type Subscriber = WebSocketSubscriber;
    type SubValidator = WebSocketSubValidator;
    type SubResponse = BinanceSubResponse;

    fn url() -> Result<url::Url, SocketError> {
        let url = std::env::var("BARTER_VERIF_BINANCE_WS_URL").expect("harness: loopback url set");
        url::Url::parse(&url).map_err(SocketError::UrlParse)
    }
    fn requests(exchange_subs: Vec<ExchangeSub<Ch, Mk>>) -> Vec<WsMessage> {
        let streams: Vec<String> = exchange_subs.into_iter().map(|sub| format!("{}{}", sub.market.as_ref().to_lowercase(), sub.channel.as_ref())).collect();
        vec![WsMessage::text(json!({"method": "SUBSCRIBE", "params": streams, "id": 1}).to_string())]
    }
    fn expected_responses<InstrumentKey>(_: &Map<InstrumentKey>) -> usize {
        1
    }
    fn subscription_timeout() -> Duration {
        Duration::from_secs(25) // generous: the box may be heavily loaded
    }
}

/// One scripted REST answer per initialisation attempt.
static SNAPSHOT_QUEUE: Mutex<VecDeque<String>> = Mutex::new(VecDeque::new());
static SNAPSHOT_FETCHES: std::sync::atomic::AtomicU64 = std::sync::atomic::AtomicU64::new(0);

pub struct QueueFetcher;
impl SnapshotFetcher<ScriptBinance, OrderBooksL2> for QueueFetcher {
    fn fetch_snapshots<Instrument>(
        subscriptions: &[Subscription<ScriptBinance, Instrument, OrderBooksL2>],
    ) -> impl Future<Output = Result<Vec<MarketEvent<Instrument::Key, OrderBookEvent>>, SocketError>> + Send
    where
        Instrument: InstrumentData,
        Subscription<ScriptBinance, Instrument, OrderBooksL2>: barter_data::Identifier<Mk>,
    {
        SNAPSHOT_FETCHES.fetch_add(1, std::sync::atomic::Ordering::SeqCst);
        // one scripted answer per initialisation attempt; the last one is served again should an attempt have
        // to be repeated (transient machinery trouble must not starve the stream)
        let text = {
            let mut queue = SNAPSHOT_QUEUE.lock().unwrap();
            if queue.len() > 1 { queue.pop_front() } else { queue.front().cloned() }
        };
        let result = match text {
            None => Err(SocketError::Subscribe("harness: no scripted snapshot left".into())),
            Some(text) => Ok(subscriptions
                .iter()
                .map(|sub| {
                    let snap: BinanceOrderBookL2Snapshot = serde_json::from_str(&text).expect("snapshot json");
                    MarketEvent::from((ExchangeId::BinanceSpot, sub.instrument.key().clone(), snap))
                })
                .collect::<Vec<_>>()),
        };
        std::future::ready(result)
    }
}

/// The real Binance spot L2 transformer under the harness exchange type.
pub struct RealSpotL2<K>(BinanceSpotOrderBooksL2Transformer<K>);

#[async_trait::async_trait]
impl<K> ExchangeTransformer<ScriptBinance, K, OrderBooksL2> for RealSpotL2<K>
where
    K: Clone + PartialEq + Send + Sync,
{
    async fn init(
        instrument_map: Map<K>,
        initial_snapshots: &[MarketEvent<K, OrderBookEvent>],
        ws_sink_tx: tokio::sync::mpsc::UnboundedSender<WsMessage>,
    ) -> Result<Self, DataError> {
        <BinanceSpotOrderBooksL2Transformer<K> as ExchangeTransformer<BinanceSpot, K, OrderBooksL2>>::init(instrument_map, initial_snapshots, ws_sink_tx).await.map(RealSpotL2)
    }
}

impl<K: Clone> Transformer for RealSpotL2<K> {
    type Error = DataError;
    type Input = BinanceSpotOrderBookL2Update;
    type Output = MarketEvent<K, OrderBookEvent>;
    type OutputIter = Vec<Result<Self::Output, Self::Error>>;
    fn transform(&mut self, input: Self::Input) -> Self::OutputIter {
        self.0.transform(input)
    }
}

impl StreamSelector<MarketDataInstrument, OrderBooksL2> for ScriptBinance {
    type SnapFetcher = QueueFetcher;
    type Stream = ExchangeWsStream<RealSpotL2<MarketDataInstrument>>;
}

pub struct ReinitStats {
    pub executions: u64,
    pub connections: u64,
    pub snapshot_fetches: u64,
    pub trace: Vec<String>,
}

/// One re-initialisation script: connection 1 = snapshot at `s1` + updates `u1` (with a gap), every later connection
/// = snapshot at `s2` + updates `u2` (in order, ending at K).
#[derive(Debug, Clone, Copy)]
struct ReinitScript {
    s1: u64,
    u1: &'static [u64],
    s2: u64,
    u2: &'static [u64],
}
/// Script 0 is the one of the first rounds. Script 1 (second hardening round): the consumer's book holds a level
/// (bid 99 from update 2) that the snapshot of the new initialisation no longer contains (change 3 deleted it) - the
/// re-initialisation must REPLACE the invalid book, not merge into it; its first update (3) is stale, 4 covers.
const REINIT_SCRIPTS: [ReinitScript; 2] = [
    ReinitScript { s1: 0, u1: &[1, 3, 4], s2: 2, u2: &[2, 3, 4] },
    ReinitScript { s1: 0, u1: &[1, 2, 4], s2: 3, u2: &[3, 4] },
];

pub fn run_reinit(ctx: &Ctx) -> Result<ReinitStats, String> {
    let mut total = ReinitStats { executions: 0, connections: 0, snapshot_fetches: 0, trace: vec![] };
    for (i, script) in REINIT_SCRIPTS.iter().enumerate() {
        let st = run_reinit_script(ctx, script)?;
        total.executions += st.executions;
        total.connections += st.connections;
        total.snapshot_fetches += st.snapshot_fetches;
        total.trace.push(format!("script {i}: {}", st.trace.join(",")));
    }
    Ok(total)
}

fn run_reinit_script(ctx: &Ctx, script: &ReinitScript) -> Result<ReinitStats, String> {
    let script = *script;
    let rt = tokio::runtime::Builder::new_current_thread().enable_all().build().map_err(|e| e.to_string())?;
    rt.block_on(async {
        let listener = tokio::net::TcpListener::bind("127.0.0.1:0").await.map_err(|e| format!("bind: {e}"))?;
        let port = listener.local_addr().map_err(|e| e.to_string())?.port();
        // SAFETY: single writer; no other thread reads the environment at this point.
        unsafe { std::env::set_var("BARTER_VERIF_BINANCE_WS_URL", format!("ws://127.0.0.1:{port}")) };
        *SNAPSHOT_QUEUE.lock().unwrap() = VecDeque::from([snapshot_json(false, script.s1), snapshot_json(false, script.s2)]);
        SNAPSHOT_FETCHES.store(0, std::sync::atomic::Ordering::SeqCst);
        let connections = std::sync::Arc::new(std::sync::atomic::AtomicU64::new(0));
        let case = json!({"engine": "c06-init", "layer": "re-initialisation", "connection_1": {"snapshot": script.s1, "updates": script.u1}, "connection_2": {"snapshot": script.s2, "updates": script.u2}});

        // scripted venue: serves connection after connection until aborted
        let conn_count = connections.clone();
        let server = tokio::spawn(async move {
            // first connection: the gap; every later connection: the in-order delivery
            loop {
                let (stream, _) = listener.accept().await.map_err(|e| format!("accept: {e}"))?;
                let updates: &[u64] = if conn_count.fetch_add(1, std::sync::atomic::Ordering::SeqCst) == 0 { script.u1 } else { script.u2 };
                let mut ws = tokio_tungstenite::accept_async(stream).await.map_err(|e| format!("ws accept: {e}"))?;
                let req = ws.next().await.ok_or("no subscribe request")?.map_err(|e| format!("ws read: {e}"))?;
                let req_text = req.into_text().map_err(|e| e.to_string())?.to_string();
                if !req_text.contains("btcusdt@depth") {
                    return Err(format!("unexpected subscribe request {req_text}"));
                }
                let send = |t: String| tokio_tungstenite::tungstenite::Message::text(t);
                ws.send(send(r#"{"result":null,"id":1}"#.to_string())).await.map_err(|e| e.to_string())?;
                for id in updates {
                    // the peer may already have hung up (that is what a terminal error makes it do)
                    if ws.send(send(update_json(false, *id))).await.is_err() {
                        break;
                    }
                }
                // hold the connection open until the peer is gone
                while let Some(Ok(_)) = ws.next().await {}
            }
            #[allow(unreachable_code)]
            Ok::<(), String>(())
        });

        let client = async {
            let subs = vec![Subscription::new(ScriptBinance, MarketDataInstrument::from(("btc", "usdt", MarketDataInstrumentKind::Spot)), OrderBooksL2)];
            let policy = ReconnectionBackoffPolicy { backoff_ms_initial: 1, backoff_multiplier: 1, backoff_ms_max: 5 };
            let stream = tokio::time::timeout(Duration::from_secs(20), init_market_stream::<ScriptBinance, MarketDataInstrument, OrderBooksL2>(policy, subs))
                .await
                .map_err(|_| "init_market_stream timed out".to_string())?
                .map_err(|e| format!("init_market_stream failed: {e}"))?;
            let mut stream = Box::pin(stream);
            let mut book = OrderBook::default();
            // told_invalid: the consumer knows its book is invalid (sequence error item or reconnect notice);
            // awaiting_reinit: a sequence error ITEM was yielded - the next item must come from a new initialisation
            let (mut snapshots, mut told_invalid, mut awaiting_reinit) = (0u32, false, false);
            let mut snapshot_of_this_init = false; // reset by a reconnect notice
            let mut trace: Vec<String> = Vec::new();
            let sig = |cause: &str| format!("C06/spot/consumer/sequence-error-does-not-force-reinitialisation/{cause}");
            loop {
                let next = tokio::time::timeout(Duration::from_secs(30), stream.next()).await;
                match next {
                    Err(_) if awaiting_reinit => {
                        ctx.violate(sig("silent-for-30s"), format!("after the sequence error nothing was yielded for 30 s although the venue accepts connections; items {trace:?}"), case.clone());
                        break;
                    }
                    Err(_) if snapshots == 1 => {
                        ctx.violate(
                            "C06/spot/consumer/break-not-surfaced/no-error-and-no-reinitialisation-within-30s".to_string(),
                            format!("connection 1 delivered a gap, yet neither a sequence error nor a re-initialisation followed within 30 s; items {trace:?}"),
                            case.clone(),
                        );
                        break;
                    }
                    Err(_) => return Err(format!("stream silent for 30 s; items {trace:?}")),
                    Ok(None) if snapshots == 1 => {
                        ctx.violate(sig("stream-ends"), format!("the stream ended on the break instead of re-initialising; items {trace:?}"), case.clone());
                        break;
                    }
                    Ok(None) => return Err(format!("stream ended unexpectedly; items {trace:?}")),
                    Ok(Some(Event::Reconnecting(_))) => {
                        trace.push("reconnecting".into());
                        told_invalid = true;
                        snapshot_of_this_init = false;
                    }
                    Ok(Some(Event::Item(Ok(ev)))) => {
                        let is_snapshot = matches!(ev.kind, OrderBookEvent::Snapshot(_));
                        match &ev.kind {
                            OrderBookEvent::Snapshot(s) => trace.push(format!("S{}", s.sequence)),
                            OrderBookEvent::Update(u) => trace.push(format!("U{}", u.sequence)),
                        }
                        if awaiting_reinit && !is_snapshot {
                            ctx.violate(sig("old-connection-continues"), format!("an update of the old connection followed the sequence error; items {trace:?}"), case.clone());
                            break;
                        }
                        if !is_snapshot && !snapshot_of_this_init {
                            // an update although this initialisation has not delivered its snapshot: the consumer has
                            // no book to apply it to
                            ctx.violate("C06/spot/consumer/snapshot-never-emitted".to_string(), format!("an update was yielded before the snapshot of its initialisation; items {trace:?}"), case.clone());
                            break;
                        }
                        if is_snapshot {
                            snapshots += 1;
                            snapshot_of_this_init = true;
                            (told_invalid, awaiting_reinit) = (false, false);
                        }
                        book.update(ev.kind.clone());
                        if snapshots > 0 && !told_invalid {
                            let seq = book.sequence;
                            if seq > K || book_as_maps(&book) != venue_as_maps(seq) {
                                ctx.violate(
                                    "C06/spot/consumer/book-differs-from-venue-book-at-reported-sequence".to_string(),
                                    format!("items {trace:?}; local book at sequence {seq} = {:?}, venue book = {:?}", book_as_maps(&book), venue_as_maps(seq.min(K))),
                                    case.clone(),
                                );
                                break;
                            }
                        }
                        if snapshots >= 2 && book.sequence == K {
                            break; // script complete
                        }
                    }
                    Ok(Some(Event::Item(Err(DataError::InvalidSequence { .. })))) => {
                        trace.push("E-seq".into());
                        if awaiting_reinit {
                            ctx.violate(sig("old-connection-continues"), format!("a second sequence error of the same connection followed the first; items {trace:?}"), case.clone());
                            break;
                        }
                        if snapshots >= 2 {
                            ctx.violate("C06/spot/consumer/in-order-delivery-errors".to_string(), format!("the in-order delivery of the second connection produced a sequence error; items {trace:?}"), case.clone());
                            break;
                        }
                        (told_invalid, awaiting_reinit) = (true, true);
                    }
                    Ok(Some(Event::Item(Err(other)))) => {
                        trace.push(format!("E-other({})", if other.is_terminal() { "terminal" } else { "non-terminal" }));
                        if awaiting_reinit {
                            ctx.violate(sig("old-connection-continues"), format!("an item of the old connection followed the sequence error; items {trace:?}"), case.clone());
                            break;
                        }
                    }
                }
                if trace.len() > 50 {
                    return Err(format!("runaway stream; items {trace:?}"));
                }
            }
            Ok::<_, String>(trace)
        };
        let trace = client.await;
        server.abort();
        let trace = trace?;
        Ok(ReinitStats {
            executions: 1,
            connections: connections.load(std::sync::atomic::Ordering::SeqCst),
            snapshot_fetches: SNAPSHOT_FETCHES.load(std::sync::atomic::Ordering::SeqCst),
            trace,
        })
    })
}

pub fn replay(ctx: &Ctx, case: &Value) {
    // the layers are tiny: a replay simply re-runs the one the case belongs to
    let result = if case["layer"] == "re-initialisation" { run_reinit(ctx).map(|_| ()) } else { run(ctx).map(|_| ()) };
    if let Err(e) = result {
        eprintln!("MACHINERY: {e}");
        std::process::exit(2);
    }
}
