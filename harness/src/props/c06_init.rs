//! C06, layer "stream initialisation": the real `ExchangeWsStream::<BinanceSpotOrderBooksL2Transformer>::
//! init` (connect, subscribe, validate, fetch snapshot, initialise the sequencer, replay the messages
//! buffered during subscription validation) against a scripted venue on loopback.
//!
//! What is enumerated (exhaustively, sequentially, one fresh connection per execution):
//!   * K atomic book changes with ids 1..K, one depth update per id (U = u = id), delivered over the
//!     socket in order (a gap-free in-order delivery), optionally starting late at id 2;
//!   * the subscription is confirmed before any update is sent (as Binance does);
//!   * the REST snapshot point S in 0..=K (the snapshot may lag or lead the socket).
//! The consumer applies the events the stream yields, in order, exactly like `OrderBookL2Manager`
//! does (snapshot replaces, update upserts). Oracle (the statement): once the consumer has applied the
//! snapshot, its book equals the venue's book as of the sequence it reports unless the stream has
//! yielded a terminal sequence error; and a gap-free in-order delivery never errors.
//!
//! Needs the hook `--cfg barter_rs_barter_rs_verif` (Binance WebSocket URL override) – the only hook
//! of this framework.

use crate::core::Ctx;
use barter_data::{
    ExchangeWsStream, MarketStream, SnapshotFetcher,
    books::OrderBook,
    error::DataError,
    event::MarketEvent,
    exchange::binance::{
        book::l2::BinanceOrderBookL2Snapshot,
        spot::{BinanceSpot, l2::BinanceSpotOrderBooksL2Transformer},
    },
    instrument::InstrumentData,
    subscription::{
        Subscription,
        book::{OrderBookEvent, OrderBooksL2},
    },
};
use barter_instrument::{
    exchange::ExchangeId,
    instrument::market_data::{MarketDataInstrument, kind::MarketDataInstrumentKind},
};
use barter_integration::error::SocketError;
use futures::{SinkExt, StreamExt};
use rust_decimal::Decimal;
use serde_json::{Value, json};
use std::{
    collections::BTreeMap,
    sync::Mutex,
    time::Duration,
};

const K: u64 = 4;

/// change i: (is_bid, price, amount); change 4 overwrites the level of change 1, change 3 deletes 2's.
fn change(i: u64) -> (bool, u32, u32) {
    match i {
        1 => (false, 101, 1),
        2 => (true, 99, 2),
        3 => (true, 99, 0),
        4 => (false, 101, 4),
        _ => unreachable!(),
    }
}

/// venue book as of id n: (bids, asks) price -> amount
fn venue_book(n: u64) -> (BTreeMap<u32, u32>, BTreeMap<u32, u32>) {
    // base levels present since before id 1 so the snapshot is never empty
    let mut bids = BTreeMap::from([(90u32, 9u32)]);
    let mut asks = BTreeMap::from([(110u32, 9u32)]);
    for i in 1..=n {
        let (is_bid, p, a) = change(i);
        let side = if is_bid { &mut bids } else { &mut asks };
        if a == 0 {
            side.remove(&p);
        } else {
            side.insert(p, a);
        }
    }
    (bids, asks)
}

fn levels_json(m: &BTreeMap<u32, u32>) -> Vec<Value> {
    m.iter().map(|(p, a)| json!([format!("{p}.00"), format!("{a}.000")])).collect()
}

fn snapshot_json(s: u64) -> String {
    let (b, a) = venue_book(s);
    json!({"lastUpdateId": s, "bids": levels_json(&b), "asks": levels_json(&a)}).to_string()
}

fn update_json(i: u64) -> String {
    let (is_bid, p, a) = change(i);
    let lvl = json!([[format!("{p}.00"), format!("{a}.000")]]);
    let (b, a_) = if is_bid { (lvl, json!([])) } else { (json!([]), lvl) };
    json!({"e": "depthUpdate", "E": 1_671_656_397_761u64 + i, "s": "BTCUSDT", "U": i, "u": i, "b": b, "a": a_}).to_string()
}

static SNAPSHOT: Mutex<Option<String>> = Mutex::new(None);

struct ScriptFetcher;

impl SnapshotFetcher<BinanceSpot, OrderBooksL2> for ScriptFetcher {
    fn fetch_snapshots<Instrument>(
        subscriptions: &[Subscription<BinanceSpot, Instrument, OrderBooksL2>],
    ) -> impl Future<Output = Result<Vec<MarketEvent<Instrument::Key, OrderBookEvent>>, SocketError>> + Send
    where
        Instrument: InstrumentData,
        Subscription<BinanceSpot, Instrument, OrderBooksL2>: barter_data::Identifier<barter_data::exchange::binance::market::BinanceMarket>,
    {
        let text = SNAPSHOT.lock().unwrap().clone().expect("snapshot script set");
        let events = subscriptions
            .iter()
            .map(|sub| {
                let snap: BinanceOrderBookL2Snapshot = serde_json::from_str(&text).expect("snapshot json");
                MarketEvent::from((ExchangeId::BinanceSpot, sub.instrument.key().clone(), snap))
            })
            .collect::<Vec<_>>();
        std::future::ready(Ok(events))
    }
}

#[derive(Debug, Clone)]
struct Script {
    first: u64,
    pre: u64,
    snapshot: u64,
}

fn book_as_maps(book: &OrderBook) -> (BTreeMap<Decimal, Decimal>, BTreeMap<Decimal, Decimal>) {
    (
        book.bids().levels().iter().map(|l| (l.price, l.amount)).collect(),
        book.asks().levels().iter().map(|l| (l.price, l.amount)).collect(),
    )
}

fn venue_as_maps(n: u64) -> (BTreeMap<Decimal, Decimal>, BTreeMap<Decimal, Decimal>) {
    let (b, a) = venue_book(n);
    let f = |m: BTreeMap<u32, u32>| m.into_iter().map(|(p, a)| (Decimal::from(p), Decimal::from(a))).collect();
    (f(b), f(a))
}

pub struct InitStats {
    pub executions: u64,
    pub distinct_outcomes: usize,
    pub events: u64,
    pub samples: Vec<Value>,
}

/// Runs the layer; reports violations through ctx. Returns Err(text) on machinery failure.
pub fn run(ctx: &Ctx) -> Result<InitStats, String> {
    let rt = tokio::runtime::Builder::new_current_thread().enable_all().build().map_err(|e| e.to_string())?;
    let mut outcomes = std::collections::BTreeSet::new();
    let mut stats = InitStats { executions: 0, distinct_outcomes: 0, events: 0, samples: vec![] };
    // `pre` (updates sent before the subscription is confirmed) is fixed to 0: Binance confirms a
    // SUBSCRIBE request with exactly one response and sends no stream data before it, and the
    // subscriber only buffers messages that arrive after the first confirmation - so for Binance the
    // buffered-events path cannot carry depth updates. (A first version of this layer also sent
    // updates before the confirmation; the subscriber drops those, the sequencer then reports the gap,
    // and the layer flagged a "spurious error" - a false alarm caused by an unrealistic venue script,
    // corrected here.)
    let scripts: Vec<Script> = [1u64, 2u64]
        .into_iter()
        .flat_map(|first| (0..=K).map(move |snapshot| Script { first, pre: 0, snapshot }))
        .collect();

    let result: Result<(), String> = rt.block_on(async {
        let listener = tokio::net::TcpListener::bind("127.0.0.1:0").await.map_err(|e| format!("bind: {e}"))?;
        let port = listener.local_addr().map_err(|e| e.to_string())?.port();
        // SAFETY: single writer before any connector reads it; worker threads are idle here.
        unsafe { std::env::set_var("BARTER_VERIF_BINANCE_WS_URL", format!("ws://127.0.0.1:{port}")) };

        for sc in &scripts {
            *SNAPSHOT.lock().unwrap() = Some(snapshot_json(sc.snapshot));
            let sc_server = sc.clone();
            // scripted venue for this one connection
            let server = async {
                let (stream, _) = listener.accept().await.map_err(|e| format!("accept: {e}"))?;
                let mut ws = tokio_tungstenite::accept_async(stream).await.map_err(|e| format!("ws accept: {e}"))?;
                // the subscribe request
                let req = ws.next().await.ok_or("no subscribe request")?.map_err(|e| format!("ws read: {e}"))?;
                let req_text = req.into_text().map_err(|e| e.to_string())?.to_string();
                if !req_text.contains("btcusdt@depth") {
                    return Err(format!("unexpected subscribe request {req_text}"));
                }
                let send = |t: String| tokio_tungstenite::tungstenite::Message::text(t);
                let last = K;
                let mut id = sc_server.first;
                for _ in 0..sc_server.pre {
                    ws.send(send(update_json(id))).await.map_err(|e| e.to_string())?;
                    id += 1;
                }
                ws.send(send(r#"{"result":null,"id":1}"#.to_string())).await.map_err(|e| e.to_string())?;
                while id <= last {
                    ws.send(send(update_json(id))).await.map_err(|e| e.to_string())?;
                    id += 1;
                }
                let _ = ws.close(None).await;
                // drain until the peer is gone
                while let Some(Ok(_)) = ws.next().await {}
                Ok::<(), String>(())
            };
            let client = async {
                let subs = vec![Subscription::new(
                    BinanceSpot::default(),
                    MarketDataInstrument::from(("btc", "usdt", MarketDataInstrumentKind::Spot)),
                    OrderBooksL2,
                )];
                let mut stream = tokio::time::timeout(
                    Duration::from_secs(20),
                    <ExchangeWsStream<BinanceSpotOrderBooksL2Transformer<MarketDataInstrument>> as MarketStream<BinanceSpot, MarketDataInstrument, OrderBooksL2>>::init::<ScriptFetcher>(&subs),
                )
                .await
                .map_err(|_| "init timed out".to_string())?
                .map_err(|e| format!("init failed (is the harness built with --cfg barter_rs_barter_rs_verif?): {e}"))?;
                let mut events = Vec::new();
                loop {
                    match tokio::time::timeout(Duration::from_secs(10), stream.next()).await {
                        Ok(Some(item)) => events.push(item),
                        Ok(None) => break,
                        Err(_) => return Err("stream neither yielded nor ended within 10 s".to_string()),
                    }
                }
                Ok::<_, String>(events)
            };
            let (srv, cli) = tokio::join!(server, client);
            srv?;
            let events = cli?;
            stats.executions += 1;
            stats.events += events.len() as u64;

            // the consumer
            let mut book = OrderBook::default();
            let mut have_snapshot = false;
            let mut told_invalid = false;
            let mut trace = Vec::new();
            let case = json!({"engine": "c06-init", "first_update_id": sc.first, "updates_before_subscription_confirmed": sc.pre, "snapshot_last_update_id": sc.snapshot, "updates": K});
            for ev in events {
                match ev {
                    Ok(ev) => {
                        match &ev.kind {
                            OrderBookEvent::Snapshot(s) => {
                                trace.push(format!("S{}", s.sequence));
                                have_snapshot = true;
                            }
                            OrderBookEvent::Update(u) => trace.push(format!("U{}", u.sequence)),
                        }
                        book.update(ev.kind.clone());
                        if have_snapshot && !told_invalid {
                            let seq = book.sequence;
                            if seq > K || book_as_maps(&book) != venue_as_maps(seq) {
                                let order = if trace.iter().position(|t| t.starts_with('S')).is_some_and(|p| p > 0) {
                                    "update-emitted-before-snapshot"
                                } else {
                                    "after-snapshot"
                                };
                                ctx.violate(
                                    format!("C06/spot/init/book-differs-from-venue-book-at-reported-sequence/{order}"),
                                    format!(
                                        "script {sc:?}: events {trace:?}; local book at sequence {seq} = {:?}, venue book at {seq} = {:?}",
                                        book_as_maps(&book),
                                        venue_as_maps(seq.min(K))
                                    ),
                                    case.clone(),
                                );
                                break;
                            }
                        }
                    }
                    Err(DataError::InvalidSequence { .. }) => {
                        trace.push("E-seq".into());
                        told_invalid = true;
                        if sc.first == 1 {
                            ctx.violate(
                                "C06/spot/init/in-order-delivery-errors".to_string(),
                                format!("script {sc:?}: gap-free in-order delivery from id 1 produced a sequence error; events {trace:?}"),
                                case.clone(),
                            );
                        }
                        break;
                    }
                    Err(other) => {
                        // socket closed by the scripted venue at the end of the script etc.
                        trace.push(format!("E-other({})", if other.is_terminal() { "terminal" } else { "non-terminal" }));
                    }
                }
            }
            if !have_snapshot {
                ctx.violate(
                    "C06/spot/init/snapshot-never-emitted".to_string(),
                    format!("script {sc:?}: events {trace:?}"),
                    case.clone(),
                );
            }
            outcomes.insert(trace.join(","));
            if stats.samples.len() < 4 {
                stats.samples.push(json!({"script": case, "events": trace}));
            }
        }
        Ok(())
    });
    result?;
    stats.distinct_outcomes = outcomes.len();
    Ok(stats)
}

pub fn replay(ctx: &Ctx, _case: &Value) {
    // the layer is tiny (<= 45 executions): a replay simply re-runs it
    if let Err(e) = run(ctx) {
        eprintln!("MACHINERY: {e}");
        std::process::exit(2);
    }
}
