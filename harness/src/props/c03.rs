//! C03 — not yet implemented
use crate::core::{Ctx, Outcome};
use serde_json::Value;

pub fn run(_ctx: &Ctx) -> Outcome {
    eprintln!("MACHINERY: C03 not implemented");
    std::process::exit(2)
}

pub fn replay(_ctx: &Ctx, _case: &Value) {
    eprintln!("MACHINERY: C03 not implemented");
    std::process::exit(2)
}
