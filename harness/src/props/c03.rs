//! C03 — Order requests: sent => delivered once and in flight; refused/failed => neither.
//!
//! E-BFS (depth bounded, states de-duplicated on a canonical form of the real `EngineState`) where
//! every transition is one call of the real `Engine::process` (or, for `Act::ev == None`, one direct
//! call of the real `generate_algo_orders()` whose return value - unlike the audit - is never
//! truncated). The engine is closed with the scripted seams of `common.rs`:
//!
//! * the *strategy output* (cancels/opens), the *risk verdict* and the *fault mode of every execution
//!   link* are ENVIRONMENT: they are part of the action, chosen afresh before each event, so "all
//!   strategy/risk outputs x link fault patterns" is a choice dimension of the search (a link may be
//!   healthy at one step and gone at the next = fault sequences);
//! * `ScriptTx` records every delivery per exchange link; on the command send path, on the enabling
//!   event and on the direct calls every tick is ALSO run with the real production link type
//!   `UnboundedTx<ExecutionRequest>` (receiver held / dropped / `None` entry), so the error class of a
//!   gone link and "Ok means delivered" are judged on the channel the engine is shipped with;
//! * the strategy (`XStrategy`) also chooses the cancels it adds to its `ClosePositions` answer, and the
//!   risk manager (`XRisk`) may refuse single requests of a batch.
//!
//! Alphabet (see `M::gen_actions`): market trade, account fill that enters a position and the opposite
//! fill that exits it (`PositionExit` tick), order snapshot (open / cancelled) of a
//! tracked id, `TradingStateUpdate(Enabled|Disabled)`, the four commands (`SendOpenRequests` - also
//! re-using the cid of an order tracked on ANOTHER instrument, and the cid of an order tracked as open /
//! cancel-in-flight on the SAME instrument -, `SendCancelRequests` - with the exchange's order id and,
//! for an acknowledged order, also without it (`RequestCancel.id == None`) -,
//! `ClosePositions(filter)` answered with market orders and optionally a cancel, `CancelOrders(filter)`),
//! each command also next to a risk manager that refuses everything it is asked,
//! `Shutdown`; probe events without successor (`Ev::is_probe`): account / market `Reconnecting` notice,
//! balance snapshot, full account snapshot, cancel response (ok / rejected), market L1, a
//! `SendOpenRequests` command carrying a long batch (`BULK` opens; the strategy proposes the same batch
//! on an L1 tick);
//! strategy menu: nothing / one open per exchange / open to an exchange index out of range / open whose
//! exchange differs from the instrument's home exchange / two opens in one batch / cancel of a
//! tracked id (with / without the exchange's order id) / re-open under a tracked cid / cancel of an
//! untracked id / open + cancel; risk menu: approve / refuse opens / refuse
//! cancels / refuse all / refuse one open of two; link modes per addressed exchange: healthy / closed
//! (unrecoverable) / `None` entry / unhealthy (recoverable). Configurations: 1, 2 and 3 exchanges (the
//! fresh engine state starts with every connection `Reconnecting`, so both connectivity values occur);
//! histories starting from fresh engine states (no asset balance known) and, at a shallower depth, from
//! states in which the real engine has processed a balance snapshot for every asset (`funded`: free
//! quote balance below the notional of the alphabet's opens on exchange 0, ample elsewhere).
//!
//! Oracle = the statement, rule by rule (signatures `C03/<rule>/...`):
//!  R1 `sent-delivered-once`   every request reported `sent` (command output or algo output in the audit, or
//!                             the direct return value) is in the log of the link of `request.key.exchange`
//!                             exactly once and in no other link's log; one issuer does not report it twice;
//!                             a later tick that issues nothing for an already tracked order delivers
//!                             nothing for it (`redelivered-in-later-tick`);
//!  R2 `sent-then-in-flight`   a sent open is `OpenInFlight`, a sent cancel of a tracked order is
//!                             `CancelInFlight` after the tick;
//!  R3 `failed-*`              a request reported failed carries an error that is unrecoverable IF the link
//!                             is closed / absent / out of range (on an unhealthy or healthy link the class is the
//!                             engine's choice), was delivered nowhere, left no mark, and a
//!                             fatal failure makes the tick terminal (the audit carries the error and
//!                             `Terminal::is_terminal()` - what the run loops stop on - is true);
//!                             (a request may also be declined on a HEALTHY link - second open under a tracked cid,
//!                             batch limit, validation: reported with an error, nowhere delivered, no mark - the
//!                             statement does not say it must be sent);
//!     `recoverable-failure`   consistency: with no link gone and only known exchanges named, the audit carries no
//!                             unrecoverable error when every link is healthy and nothing failed, nor when every
//!                             failure the engine reports is - by its own report - recoverable;
//!  R4 `refused-*`             a request the risk manager refused is reported refused, delivered nowhere, no mark;
//!  R5 `disabled-*`            while Disabled (and not on the enabling event) nothing the strategy proposed is
//!                             delivered, marked or reported (the event that disables trading counts as disabled
//!                             unless the strategy was consulted only on a state in which trading was still
//!                             enabled - `XStrategy::consulted`); commands are still actioned
//!                             (`command-actioned`) whatever the risk manager would say - a commanded request
//!                             stays unissued only if it is reported as refused (never delivered, no mark);
//!                             market/account events update the state exactly as they
//!                             do when enabled (`disabled-state-still-updates`, differential);
//!  R6 `enabled-generates`     on the event that re-enables trading (that very event) the strategy's approved
//!                             requests are issued (healthy link => delivered once, in flight, reported / declined
//!                             with a reported error). On every other market / account / trading event processed
//!                             while enabled generation is NOT demanded (the statement does not fix on which
//!                             events an enabled engine consults its strategy), but if it left a trace the same
//!                             per-request rules apply.
//!  R7 `frame`                 an order (instrument, cid) addressed by nothing in the tick (event, proposal,
//!                             command, report, delivery) is unchanged ("... and no other order changed" of
//!                             the design); the same cid on another instrument is another order.
//! Signatures name rule + abstract cause only; requests already flagged by the report-driven rules
//! R1-R4 are skipped by the input-driven rules R5/R6 so that one defect yields one or two signatures.
//! Not demanded (statement silent, all behaviours accepted): whether generation runs after a command,
//! after `Shutdown`, on a reconnect notice, on any enabled event other than the enabling one; whether the audit
//! still carries the algo output next to a fatal algo error (counted as `audit_dropped_algo_output`); WHICH
//! orders / positions `CancelOrders(filter)` / `ClosePositions(filter)` cover (C19) - for those two commands
//! "still actioned while disabled" is judged differentially against the same command on the same state with
//! trading enabled (`.../differs-from-enabled-engine`); how a full account snapshot changes the orders of its
//! exchange (C01).

use super::common::*;
use crate::core::{Ctx, Outcome};
use crate::explore::bfs::{self, Model, Viol};
use barter::{
    EngineEvent,
    engine::{
        Engine, EngineOutput, Processor,
        action::{
            ActionOutput,
            generate_algo_orders::{GenerateAlgoOrders, GenerateAlgoOrdersOutput},
            send_requests::SendRequestsOutput,
        },
        audit::EngineAudit,
        command::Command,
        error::EngineError,
        execution_tx::{ExecutionTxMap, MultiExchangeTxMap},
        state::{
            EngineState,
            global::DefaultGlobalData,
            instrument::{
                data::{DefaultInstrumentMarketData, InstrumentDataState},
                filter::InstrumentFilter,
            },
            trading::TradingState,
        },
    },
    execution::{AccountStreamEvent, request::ExecutionRequest},
    risk::{RiskApproved, RiskManager, RiskRefused},
    shutdown::Shutdown,
    strategy::{
        algo::AlgoStrategy,
        close_positions::{ClosePositionsStrategy, close_open_positions_with_market_orders},
        on_disconnect::OnDisconnectStrategy,
        on_trading_disabled::OnTradingDisabled,
    },
};
use barter_data::{
    books::Level,
    event::{DataKind, MarketEvent},
    streams::consumer::MarketStreamEvent,
    subscription::{book::OrderBookL1, trade::PublicTrade},
};
use barter_execution::{
    AccountEvent, AccountEventKind, AccountSnapshot, InstrumentAccountSnapshot,
    balance::{AssetBalance, Balance},
    error::{ApiError, OrderError},
    order::{
        Order, OrderEvent, OrderKey, OrderKind, TimeInForce,
        id::{ClientOrderId, OrderId},
        request::{OrderRequestCancel, OrderRequestOpen, RequestCancel, RequestOpen},
        state::{ActiveOrderState, Cancelled, Open, OrderState},
    },
    trade::{AssetFees, Trade, TradeId},
};
use barter_instrument::{
    Side,
    asset::AssetIndex,
    exchange::{ExchangeId, ExchangeIndex},
    index::IndexedInstruments,
    instrument::InstrumentIndex,
};
use barter_integration::{
    Terminal,
    channel::{Tx, UnboundedRx, UnboundedTx, mpsc_unbounded},
    collection::one_or_many::OneOrMany,
    snapshot::Snapshot,
};
use rust_decimal::Decimal;
use serde::{Deserialize, Serialize};
use serde_json::{Value, json};
use std::{
    collections::BTreeSet,
    hash::{Hash, Hasher},
    sync::{
        Arc,
        atomic::{AtomicU64, Ordering},
    },
};

/// Build a real engine around an existing (cloned) engine state with fresh scripted seams.
/// (`Engine` is not `Clone` because `MultiExchangeTxMap` is not, so the explorers keep the
/// `EngineState` and re-close it per step; `links[i] == None` = tracked exchange without link.)
pub fn mk_engine(
    instruments: &IndexedInstruments,
    state: EState,
    links: &[Option<TxMode>],
    strategy: ScriptStrategy,
    risk: ScriptRisk,
) -> (SEngine, Vec<Option<ScriptTx>>) {
    let txs: Vec<(ExchangeId, Option<ScriptTx>)> = instruments
        .exchanges()
        .iter()
        .enumerate()
        .map(|(i, ex)| {
            let mode = links.get(i).copied().unwrap_or(Some(TxMode::Healthy));
            (ex.value, mode.map(ScriptTx::new))
        })
        .collect();
    let map = MultiExchangeTxMap::from_iter(txs.iter().map(|(e, t)| (*e, t.clone())));
    let engine = Engine::new(ScriptClock::default(), state, map, strategy, risk);
    (engine, txs.into_iter().map(|(_, t)| t).collect())
}

pub fn fresh_state(instruments: &IndexedInstruments, trading: TradingState) -> EState {
    EngineState::builder(instruments, DefaultGlobalData, DefaultInstrumentMarketData::default)
        .time_engine_start(t0())
        .trading_state(trading)
        .build()
}

// ------------------------------------------------------------------------------------------------
// Own seams (C03 only; `mk_engine` above keeps the `common.rs` seams for C19)
// ------------------------------------------------------------------------------------------------

/// Strategy whose algo output AND whose `ClosePositions` cancels are environment. (`ScriptStrategy`
/// never answers a `ClosePositions` command with cancel requests, so the cancel half of
/// `close_positions()` - send + record in flight - was never driven.)
#[derive(Debug, Clone, Default)]
pub struct XStrategy {
    id: StrategyId2,
    cancels: Vec<OrderRequestCancel<ExchangeIndex, InstrumentIndex>>,
    opens: Vec<OrderRequestOpen<ExchangeIndex, InstrumentIndex>>,
    /// cancel requests the strategy adds to the market orders that close the positions
    close_cancels: Vec<OrderRequestCancel<ExchangeIndex, InstrumentIndex>>,
    /// one entry per consultation of `generate_algo_orders`: was trading enabled in the state it was shown?
    consulted: Arc<std::sync::Mutex<Vec<bool>>>,
}
impl AlgoStrategy for XStrategy {
    type State = EState;
    fn generate_algo_orders(
        &self,
        state: &Self::State,
    ) -> (
        impl IntoIterator<Item = OrderRequestCancel<ExchangeIndex, InstrumentIndex>>,
        impl IntoIterator<Item = OrderRequestOpen<ExchangeIndex, InstrumentIndex>>,
    ) {
        self.consulted.lock().unwrap().push(state.trading == TradingState::Enabled);
        (self.cancels.clone(), self.opens.clone())
    }
}
impl ClosePositionsStrategy for XStrategy {
    type State = EState;
    fn close_positions_requests<'a>(
        &'a self,
        state: &'a Self::State,
        filter: &'a InstrumentFilter<ExchangeIndex, AssetIndex, InstrumentIndex>,
    ) -> (
        impl IntoIterator<Item = OrderRequestCancel<ExchangeIndex, InstrumentIndex>> + 'a,
        impl IntoIterator<Item = OrderRequestOpen<ExchangeIndex, InstrumentIndex>> + 'a,
    )
    where
        ExchangeIndex: 'a,
        AssetIndex: 'a,
        InstrumentIndex: 'a,
    {
        let (_none, opens) = close_open_positions_with_market_orders(&self.id.0, state, filter, |state| {
            ClientOrderId::new(format!("close-{}", state.key.index()))
        });
        (self.close_cancels.clone(), opens)
    }
}
impl<C, S, T, R> OnDisconnectStrategy<C, S, T, R> for XStrategy {
    type OnDisconnect = ExchangeId;
    fn on_disconnect(_: &mut Engine<C, S, T, Self, R>, exchange: ExchangeId) -> ExchangeId {
        exchange
    }
}
impl<C, S, T, R> OnTradingDisabled<C, S, T, R> for XStrategy {
    type OnTradingDisabled = u32;
    fn on_trading_disabled(_: &mut Engine<C, S, T, Self, R>) -> u32 {
        0
    }
}

/// Risk manager whose verdict is environment, per request kind and per client order id (so that one
/// batch can hold approved and refused requests of the same kind).
#[derive(Debug, Clone, Default)]
pub struct XRisk {
    refuse_opens: bool,
    refuse_cancels: bool,
    refuse_cids: Vec<String>,
}
impl RiskManager for XRisk {
    type State = EState;
    fn check(
        &self,
        _: &Self::State,
        cancels: impl IntoIterator<Item = OrderRequestCancel<ExchangeIndex, InstrumentIndex>>,
        opens: impl IntoIterator<Item = OrderRequestOpen<ExchangeIndex, InstrumentIndex>>,
    ) -> (
        impl IntoIterator<Item = RiskApproved<OrderRequestCancel<ExchangeIndex, InstrumentIndex>>>,
        impl IntoIterator<Item = RiskApproved<OrderRequestOpen<ExchangeIndex, InstrumentIndex>>>,
        impl IntoIterator<Item = RiskRefused<OrderRequestCancel<ExchangeIndex, InstrumentIndex>>>,
        impl IntoIterator<Item = RiskRefused<OrderRequestOpen<ExchangeIndex, InstrumentIndex>>>,
    ) {
        let by_cid = |cid: &ClientOrderId| self.refuse_cids.iter().any(|c| c.as_str() == cid.0.as_str());
        let (mut ca, mut cr, mut oa, mut or) = (vec![], vec![], vec![], vec![]);
        for c in cancels {
            if self.refuse_cancels || by_cid(&c.key.cid) {
                cr.push(RiskRefused::new(c, "script"))
            } else {
                ca.push(RiskApproved::new(c))
            }
        }
        for o in opens {
            if self.refuse_opens || by_cid(&o.key.cid) {
                or.push(RiskRefused::new(o, "script"))
            } else {
                oa.push(RiskApproved::new(o))
            }
        }
        (ca, oa, cr, or)
    }
}

type XEngine<T> = Engine<ScriptClock, EState, MultiExchangeTxMap<T>, XStrategy, XRisk>;
type XAudit = EngineAudit<Event, EngineOutput<u32, ExchangeId>>;

/// the execution links of one tick: scripted (`ScriptTx`, all four fault modes) or the REAL production
/// link type `UnboundedTx<ExecutionRequest>` (healthy = receiver held by the harness, closed =
/// receiver dropped, `None` entry; a recoverable send error does not exist for this type)
enum LinkSet {
    Script(Vec<Option<ScriptTx>>),
    Real(Vec<Option<UnboundedRx<ExecutionRequest>>>),
}
impl LinkSet {
    /// everything delivered, per exchange index
    fn logs(&mut self) -> Vec<Vec<ExecutionRequest>> {
        match self {
            LinkSet::Script(txs) => txs.iter().map(|t| t.as_ref().map(|t| t.take()).unwrap_or_default()).collect(),
            LinkSet::Real(rxs) => rxs
                .iter_mut()
                .map(|rx| {
                    let mut v = Vec::new();
                    if let Some(rx) = rx {
                        while let Ok(r) = rx.rx.try_recv() {
                            v.push(r);
                        }
                    }
                    v
                })
                .collect(),
        }
    }
}

/// what one transition executes on the freshly closed engine
enum Job {
    Process(Event),
    Direct,
}
enum Done {
    Audit(XAudit),
    Algo(GenerateAlgoOrdersOutput),
}
fn exec<T>(engine: &mut XEngine<T>, job: &Job) -> Result<Done, ()>
where
    T: Tx<Item = ExecutionRequest> + std::fmt::Debug,
    MultiExchangeTxMap<T>: ExecutionTxMap<ExchangeIndex, InstrumentIndex>,
{
    crate::core::guarded(|| match job {
        Job::Process(ev) => Done::Audit(engine.process(ev.clone())),
        Job::Direct => Done::Algo(GenerateAlgoOrders::<ExchangeIndex, InstrumentIndex>::generate_algo_orders(engine)),
    })
}

// ------------------------------------------------------------------------------------------------
// Alphabet
// ------------------------------------------------------------------------------------------------

/// open request: exchange index (possibly out of range), instrument index, client order id
#[derive(Debug, Clone, PartialEq, Eq, Hash, Serialize, Deserialize)]
pub struct RO {
    ex: usize,
    ins: usize,
    cid: String,
}
/// cancel request (also used to name a tracked order in snapshots)
#[derive(Debug, Clone, PartialEq, Eq, Hash, Serialize, Deserialize)]
pub struct RC {
    ex: usize,
    ins: usize,
    cid: String,
    id: Option<String>,
}
#[derive(Debug, Clone, PartialEq, Eq, Hash, Serialize, Deserialize)]
pub enum Filt {
    All,
    Ex(usize),
    Ins(usize),
}
#[derive(Debug, Clone, PartialEq, Eq, Hash, Serialize, Deserialize)]
pub enum Ev {
    Market(usize),
    Fill(usize),
    /// account trade of the opposite side and the same size as `Fill`: exits the position
    FillExit(usize),
    SnapOpen(RC),
    SnapCancelled(RC),
    Trading(bool),
    CmdOpen(Vec<RO>),
    CmdCancel(Vec<RC>),
    CmdClose(Filt),
    CmdCancelOrders(Filt),
    Shutdown,
    // ---- probe events (executed and judged in every state, but without successor: see `is_probe`)
    /// `AccountStreamEvent::Reconnecting(exchange)`
    AcctReconnecting(usize),
    /// `MarketStreamEvent::Reconnecting(exchange)`
    MktReconnecting(usize),
    /// `AccountEventKind::BalanceSnapshot` for the asset with this index
    Balance(usize),
    /// full `AccountEventKind::Snapshot` of one exchange: balances of its assets + one new open order per instrument
    AcctSnapshot(usize),
    /// `AccountEventKind::OrderCancelled` response for a tracked order (true = Ok(Cancelled), false = Err(rejected))
    CancelResp(RC, bool),
    /// market `DataKind::OrderBookL1` for the instrument
    MarketL1(usize),
    /// `SendOpenRequests` carrying this many opens (cids `b0..`, spread over the exchanges) - a long batch
    CmdOpenBulk(usize),
}
impl Ev {
    /// Probe events widen the input alphabet of the "while disabled" rules (no strategy request on ANY
    /// event kind; the state keeps updating on EVERY event kind) without multiplying the state space.
    fn is_probe(&self) -> bool {
        matches!(self, Ev::AcctReconnecting(_) | Ev::MktReconnecting(_) | Ev::Balance(_) | Ev::AcctSnapshot(_) | Ev::CancelResp(..) | Ev::MarketL1(_) | Ev::CmdOpenBulk(_))
    }
}
#[derive(Debug, Clone, PartialEq, Eq, Hash, Serialize, Deserialize)]
pub struct Act {
    /// `None` = direct call of `generate_algo_orders()` on the state (no successor)
    ev: Option<Ev>,
    /// strategy output for this tick
    opens: Vec<RO>,
    cancels: Vec<RC>,
    refuse_opens: bool,
    refuse_cancels: bool,
    /// fault mode of every exchange link for this tick
    links: Vec<Option<TxMode>>,
    /// client order ids the risk manager refuses individually (partial refusal inside one batch)
    #[serde(default)]
    refuse_cids: Vec<String>,
    /// cancels the strategy adds to its answer to a `ClosePositions` command
    #[serde(default)]
    close_cancels: Vec<RC>,
    /// true = the links are real `UnboundedTx<ExecutionRequest>` channels instead of `ScriptTx`
    #[serde(default)]
    real: bool,
}

fn open_req(r: &RO) -> OrderRequestOpen<ExchangeIndex, InstrumentIndex> {
    OrderRequestOpen {
        key: OrderKey {
            exchange: ExchangeIndex(r.ex),
            instrument: InstrumentIndex(r.ins),
            strategy: strategy_id(),
            cid: ClientOrderId::new(r.cid.as_str()),
        },
        state: RequestOpen {
            side: Side::Buy,
            price: Decimal::from(100),
            quantity: Decimal::ONE,
            kind: OrderKind::Limit,
            time_in_force: TimeInForce::GoodUntilCancelled { post_only: false },
        },
    }
}
fn cancel_req(r: &RC) -> OrderRequestCancel<ExchangeIndex, InstrumentIndex> {
    OrderRequestCancel {
        key: OrderKey {
            exchange: ExchangeIndex(r.ex),
            instrument: InstrumentIndex(r.ins),
            strategy: strategy_id(),
            cid: ClientOrderId::new(r.cid.as_str()),
        },
        state: RequestCancel { id: r.id.as_ref().map(OrderId::new) },
    }
}

fn balance_of(k: usize) -> AssetBalance<AssetIndex> {
    AssetBalance { asset: AssetIndex(k), balance: Balance { total: Decimal::from(10 + k as i64), free: Decimal::from(5) }, time_exchange: t_plus(1) }
}
/// cid of the order a full account snapshot reports for instrument `i`
fn snapshot_cid(i: usize) -> String {
    format!("s{i}")
}

/// (is_open, exchange index, instrument index, cid) of an execution request
fn parts(r: &ExecutionRequest) -> (bool, usize, usize, String) {
    match r {
        ExecutionRequest::Open(o) => (true, o.key.exchange.index(), o.key.instrument.index(), o.key.cid.0.to_string()),
        ExecutionRequest::Cancel(c) => (false, c.key.exchange.index(), c.key.instrument.index(), c.key.cid.0.to_string()),
        ExecutionRequest::Shutdown => (false, usize::MAX, usize::MAX, String::new()),
    }
}

// ------------------------------------------------------------------------------------------------
// State = the real EngineState + canonical key
// ------------------------------------------------------------------------------------------------

#[derive(Clone)]
pub struct St {
    key: Arc<String>,
    es: Arc<EState>,
}
impl PartialEq for St {
    fn eq(&self, o: &Self) -> bool {
        self.key == o.key
    }
}
impl Eq for St {}
impl Hash for St {
    fn hash<H: Hasher>(&self, h: &mut H) {
        self.key.hash(h)
    }
}

type AOrder = Order<ExchangeIndex, InstrumentIndex, ActiveOrderState>;

/// all tracked orders as (instrument index, cid, order), sorted
fn tracked(es: &EState) -> Vec<(usize, String, AOrder)> {
    let mut v: Vec<(usize, String, AOrder)> = Vec::new();
    for (i, st) in es.instruments.0.values().enumerate() {
        for (cid, o) in st.orders.0.iter() {
            v.push((i, cid.0.to_string(), o.clone()));
        }
    }
    v.sort_by(|a, b| (a.0, &a.1).cmp(&(b.0, &b.1)));
    v
}
fn order_of<'a>(es: &'a EState, ins: usize, cid: &str) -> Option<&'a AOrder> {
    es.instruments.0.get_index(ins).and_then(|(_, st)| st.orders.0.get(&ClientOrderId::new(cid)))
}

/// canonical form: hash-map content sorted; assets and tear sheets never change under this alphabet
/// (no balance events, no position exits) and are left out.
fn canon(es: &EState) -> String {
    use std::fmt::Write;
    let mut s = String::with_capacity(512);
    let _ = write!(s, "{:?}|{:?}|", es.trading, es.connectivity);
    for st in es.instruments.0.values() {
        let mut os: Vec<&AOrder> = st.orders.0.values().collect();
        os.sort_by(|a, b| a.key.cid.cmp(&b.key.cid));
        let _ = write!(s, "{:?}#{:?}#{:?};", os, st.position.current, st.data);
    }
    s
}
fn st_of(es: EState) -> St {
    St { key: Arc::new(canon(&es)), es: Arc::new(es) }
}

// ------------------------------------------------------------------------------------------------
// Model
// ------------------------------------------------------------------------------------------------

/// length of the long batches (`Ev::CmdOpenBulk`, the strategy's bulk proposal)
const BULK: usize = 24;
const POOL: [&str; 8] = ["o1", "o2", "o3", "o4", "o5", "o6", "o7", "o8"];
const MODES: [Option<TxMode>; 4] =
    [Some(TxMode::Healthy), Some(TxMode::Closed), None, Some(TxMode::Unhealthy)];

#[derive(Default)]
pub struct Cov {
    process_calls: AtomicU64,
    direct_calls: AtomicU64,
    requests_sent: AtomicU64,
    requests_failed_fatal: AtomicU64,
    requests_failed_recoverable: AtomicU64,
    requests_refused: AtomicU64,
    terminal_ticks: AtomicU64,
    audit_dropped_algo_output: AtomicU64,
    disabled_ticks_with_strategy_proposal: AtomicU64,
    disabled_state_updates_checked: AtomicU64,
    disabled_state_updates_changed_state: AtomicU64,
    enabling_event_generations: AtomicU64,
    commands_while_disabled: AtomicU64,
    oracle_evaluations: AtomicU64,
    real_channel_ticks: AtomicU64,
    probe_ticks: AtomicU64,
    disabled_probe_updates_changed_state: AtomicU64,
    close_positions_cancels: AtomicU64,
    recoverable_only_ticks_checked: AtomicU64,
    commands_under_refusing_risk: AtomicU64,
    reopens_of_tracked_cid_sent: AtomicU64,
    position_exit_ticks: AtomicU64,
    bulk_ticks: AtomicU64,
    funded_roots: AtomicU64,
}
fn bump(a: &AtomicU64) {
    a.fetch_add(1, Ordering::Relaxed);
}
fn addn(a: &AtomicU64, n: usize) {
    a.fetch_add(n as u64, Ordering::Relaxed);
}

pub struct M {
    n_ex: usize,
    instruments: IndexedInstruments,
    /// instrument used for "an open on exchange e" (index != exchange index for every e)
    home: Vec<usize>,
    /// instruments that may get a position (fills)
    fill_ins: Vec<usize>,
    /// bound on simultaneously tracked pool orders (keeps the reachable set finite)
    max_tracked: usize,
    /// true = the histories start from engine states whose asset balances are KNOWN (a balance snapshot for
    /// every asset has been processed: too small for the alphabet's opens on exchange 0, ample elsewhere)
    funded: bool,
    pub cov: Cov,
}

impl M {
    pub fn funded(mut self, funded: bool) -> Self {
        self.funded = funded;
        self
    }
    pub fn new(n_ex: usize, max_tracked: usize) -> Self {
        // exchange 0: i0 (btc/usdt), i1 (eth/usdt); exchange e>0: i{e+1} (btc/usdt)
        let mut b = IndexedInstruments::builder();
        b = b.add_instrument(spot(EXCHANGES[0], "i0", "I0", "btc", "usdt"));
        b = b.add_instrument(spot(EXCHANGES[0], "i1", "I1", "eth", "usdt"));
        for e in 1..n_ex {
            b = b.add_instrument(spot(EXCHANGES[e], &format!("i{}", e + 1), &format!("I{}", e + 1), "btc", "usdt"));
        }
        let instruments = b.build();
        // sanity of the layout the alphabet relies on
        for (i, ins) in instruments.instruments().iter().enumerate() {
            let want_ex = if i <= 1 { 0 } else { i - 1 };
            assert_eq!(ins.value.exchange.key.index(), want_ex, "instrument layout");
        }
        let home = (0..n_ex).map(|e| e + 1).collect();
        let n_ins = instruments.instruments().len();
        Self { n_ex, instruments, home, fill_ins: [0usize, 2].into_iter().filter(|i| *i < n_ins).collect(), max_tracked, funded: false, cov: Cov::default() }
    }

    fn ex_of_ins(&self, ins: usize) -> usize {
        if ins <= 1 { 0 } else { ins - 1 }
    }
    fn exchange_id(&self, ex: usize) -> ExchangeId {
        self.instruments.exchanges()[ex].value
    }

    fn rc_of(ins: usize, cid: &str, o: &AOrder) -> RC {
        RC {
            ex: o.key.exchange.index(),
            ins,
            cid: cid.to_string(),
            id: o.state.open_meta().map(|m| m.id.0.to_string()),
        }
    }

    /// the real engine event for an alphabet symbol (order snapshots copy the tracked order's fields)
    fn event(&self, ev: &Ev, es: &EState) -> Event {
        match ev {
            Ev::Market(i) => EngineEvent::Market(MarketStreamEvent::Item(MarketEvent {
                time_exchange: t_plus(1),
                time_received: t_plus(1),
                exchange: self.exchange_id(self.ex_of_ins(*i)),
                instrument: InstrumentIndex(*i),
                kind: DataKind::Trade(PublicTrade { id: "1".into(), price: 100.0, amount: 1.0, side: Side::Buy }),
            })),
            Ev::Fill(i) | Ev::FillExit(i) => EngineEvent::Account(AccountStreamEvent::Item(AccountEvent {
                exchange: ExchangeIndex(self.ex_of_ins(*i)),
                kind: AccountEventKind::Trade(Trade {
                    id: TradeId::new(if matches!(ev, Ev::Fill(_)) { "t1" } else { "t2" }),
                    order_id: OrderId::new("ox"),
                    instrument: InstrumentIndex(*i),
                    strategy: strategy_id(),
                    time_exchange: t_plus(1),
                    side: if (*i == 0) == matches!(ev, Ev::Fill(_)) { Side::Buy } else { Side::Sell },
                    price: Decimal::from(100),
                    quantity: Decimal::from(2),
                    fees: AssetFees::quote_fees(Decimal::ZERO),
                }),
            })),
            Ev::SnapOpen(rc) | Ev::SnapCancelled(rc) => {
                let held = order_of(es, rc.ins, &rc.cid);
                let (side, price, quantity, kind, tif) = held
                    .map(|o| (o.side, o.price, o.quantity, o.kind, o.time_in_force))
                    .unwrap_or((Side::Buy, Decimal::from(100), Decimal::ONE, OrderKind::Limit, TimeInForce::GoodUntilCancelled { post_only: false }));
                let id = OrderId::new(format!("x-{}", rc.cid));
                let state = if matches!(ev, Ev::SnapOpen(_)) {
                    OrderState::active(Open { id, time_exchange: t_plus(1), filled_quantity: Decimal::ZERO })
                } else {
                    OrderState::inactive(Cancelled { id, time_exchange: t_plus(2) })
                };
                EngineEvent::Account(AccountStreamEvent::Item(AccountEvent {
                    exchange: ExchangeIndex(rc.ex),
                    kind: AccountEventKind::OrderSnapshot(Snapshot(Order {
                        key: OrderKey {
                            exchange: ExchangeIndex(rc.ex),
                            instrument: InstrumentIndex(rc.ins),
                            strategy: strategy_id(),
                            cid: ClientOrderId::new(rc.cid.as_str()),
                        },
                        side,
                        price,
                        quantity,
                        kind,
                        time_in_force: tif,
                        state,
                    })),
                }))
            }
            Ev::Trading(b) => EngineEvent::TradingStateUpdate(if *b { TradingState::Enabled } else { TradingState::Disabled }),
            Ev::CmdOpen(rs) => EngineEvent::Command(Command::SendOpenRequests(OneOrMany::from_iter(rs.iter().map(open_req)))),
            Ev::CmdOpenBulk(n) => EngineEvent::Command(Command::SendOpenRequests(OneOrMany::from_iter(self.bulk(*n).iter().map(open_req)))),
            Ev::CmdCancel(rs) => EngineEvent::Command(Command::SendCancelRequests(OneOrMany::from_iter(rs.iter().map(cancel_req)))),
            Ev::CmdClose(f) => EngineEvent::Command(Command::ClosePositions(self.filter(f))),
            Ev::CmdCancelOrders(f) => EngineEvent::Command(Command::CancelOrders(self.filter(f))),
            Ev::Shutdown => EngineEvent::Shutdown(Shutdown),
            Ev::AcctReconnecting(e) => EngineEvent::Account(AccountStreamEvent::Reconnecting(self.exchange_id(*e))),
            Ev::MktReconnecting(e) => EngineEvent::Market(MarketStreamEvent::Reconnecting(self.exchange_id(*e))),
            Ev::Balance(k) => EngineEvent::Account(AccountStreamEvent::Item(AccountEvent {
                exchange: ExchangeIndex(self.ex_of_asset(*k)),
                kind: AccountEventKind::BalanceSnapshot(Snapshot(balance_of(*k))),
            })),
            Ev::AcctSnapshot(e) => {
                let balances = (0..self.instruments.assets().len()).filter(|k| self.ex_of_asset(*k) == *e).map(balance_of).collect();
                let instruments = (0..self.instruments.instruments().len())
                    .filter(|i| self.ex_of_ins(*i) == *e)
                    .map(|i| InstrumentAccountSnapshot {
                        instrument: InstrumentIndex(i),
                        orders: vec![Order {
                            key: OrderKey {
                                exchange: ExchangeIndex(*e),
                                instrument: InstrumentIndex(i),
                                strategy: strategy_id(),
                                cid: ClientOrderId::new(snapshot_cid(i)),
                            },
                            side: Side::Buy,
                            price: Decimal::from(100),
                            quantity: Decimal::ONE,
                            kind: OrderKind::Limit,
                            time_in_force: TimeInForce::GoodUntilCancelled { post_only: false },
                            state: OrderState::active(Open { id: OrderId::new(format!("x-{}", snapshot_cid(i))), time_exchange: t_plus(1), filled_quantity: Decimal::ZERO }),
                        }],
                    })
                    .collect();
                EngineEvent::Account(AccountStreamEvent::Item(AccountEvent {
                    exchange: ExchangeIndex(*e),
                    kind: AccountEventKind::Snapshot(AccountSnapshot { exchange: ExchangeIndex(*e), balances, instruments }),
                }))
            }
            Ev::CancelResp(rc, ok) => EngineEvent::Account(AccountStreamEvent::Item(AccountEvent {
                exchange: ExchangeIndex(rc.ex),
                kind: AccountEventKind::OrderCancelled(OrderEvent {
                    key: OrderKey {
                        exchange: ExchangeIndex(rc.ex),
                        instrument: InstrumentIndex(rc.ins),
                        strategy: strategy_id(),
                        cid: ClientOrderId::new(rc.cid.as_str()),
                    },
                    state: if *ok {
                        Ok(Cancelled { id: OrderId::new(format!("x-{}", rc.cid)), time_exchange: t_plus(2) })
                    } else {
                        Err(OrderError::Rejected(ApiError::OrderAlreadyCancelled))
                    },
                }),
            })),
            Ev::MarketL1(i) => EngineEvent::Market(MarketStreamEvent::Item(MarketEvent {
                time_exchange: t_plus(1),
                time_received: t_plus(1),
                exchange: self.exchange_id(self.ex_of_ins(*i)),
                instrument: InstrumentIndex(*i),
                kind: DataKind::OrderBookL1(OrderBookL1 {
                    last_update_time: t_plus(1),
                    best_bid: Some(Level { price: Decimal::from(99), amount: Decimal::ONE }),
                    best_ask: Some(Level { price: Decimal::from(101), amount: Decimal::ONE }),
                }),
            })),
        }
    }
    /// exchange index of the asset with this index
    fn ex_of_asset(&self, k: usize) -> usize {
        let ex = self.instruments.assets()[k].value.exchange;
        self.instruments.exchanges().iter().position(|e| e.value == ex).expect("asset exchange")
    }
    /// cids the input event itself addresses (order snapshots, cancel responses, account snapshots)
    fn touched(&self, ev: &Ev) -> Vec<(usize, String)> {
        match ev {
            Ev::SnapOpen(rc) | Ev::SnapCancelled(rc) | Ev::CancelResp(rc, _) => vec![(rc.ins, rc.cid.clone())],
            Ev::AcctSnapshot(e) => (0..self.instruments.instruments().len()).filter(|i| self.ex_of_ins(*i) == *e).map(|i| (i, snapshot_cid(i))).collect(),
            _ => vec![],
        }
    }
    fn filter(&self, f: &Filt) -> InstrumentFilter {
        match f {
            Filt::All => InstrumentFilter::None,
            Filt::Ex(e) => InstrumentFilter::Exchanges(OneOrMany::One(ExchangeIndex(*e))),
            Filt::Ins(i) => InstrumentFilter::Instruments(OneOrMany::One(InstrumentIndex(*i))),
        }
    }
    fn filt_matches(&self, f: &Filt, ins: usize) -> bool {
        match f {
            Filt::All => true,
            Filt::Ex(e) => self.ex_of_ins(ins) == *e,
            Filt::Ins(i) => ins == *i,
        }
    }

    /// strategy menu: (opens, cancels). `full == false` gives the reduced menu used where the strategy
    /// output is secondary (commands, disabled ticks).
    fn menus(&self, targets: &[RC], free: &[String], room: usize, full: bool) -> Vec<(Vec<RO>, Vec<RC>)> {
        let mut v: Vec<(Vec<RO>, Vec<RC>)> = vec![(vec![], vec![])];
        let can1 = room >= 1 && !free.is_empty();
        let can2 = room >= 2 && free.len() >= 2;
        let o = |ex: usize, ins: usize, k: usize| RO { ex, ins, cid: free[k].clone() };
        // (a command of the same tick uses the untracked id "zz": identical requests from two issuers
        // would be indistinguishable in the link logs)
        let untracked = RC { ex: 0, ins: 0, cid: "zs".into(), id: None };
        if !full {
            if can1 {
                v.push((vec![o(self.n_ex - 1, self.home[self.n_ex - 1], 0)], vec![untracked.clone()]));
                if let Some(t) = targets.first() {
                    v.push((vec![o((t.ex + 1) % self.n_ex, self.home[(t.ex + 1) % self.n_ex], 0)], vec![t.clone()]));
                }
            } else if let Some(t) = targets.first() {
                v.push((vec![], vec![t.clone()]));
            } else {
                v.push((vec![], vec![untracked]));
            }
            return v;
        }
        if can1 {
            for e in 0..self.n_ex {
                v.push((vec![o(e, self.home[e], 0)], vec![]));
            }
            v.push((vec![o(self.n_ex, 0, 0)], vec![])); // exchange index out of range
            if self.n_ex >= 2 {
                v.push((vec![o(1, 0, 0)], vec![])); // exchange named in the request != instrument's home exchange
            }
        }
        if can2 {
            v.push((self.two_opens(&free[0], &free[1]), vec![]));
        }
        for t in targets {
            v.push((vec![], vec![t.clone()]));
        }
        // the strategy re-opens under the cid of an order it tracks as open / cancel-in-flight (`id` is known
        // exactly for those states) on the same instrument
        if let Some(t) = targets.iter().find(|t| t.ex < self.n_ex && t.id.is_some()) {
            v.push((vec![RO { ex: t.ex, ins: t.ins, cid: t.cid.clone() }], vec![]));
            // ... or cancels it without naming the exchange's order id
            v.push((vec![], vec![RC { id: None, ..t.clone() }]));
        }
        v.push((vec![], vec![untracked]));
        if can1 {
            if let Some(t) = targets.first() {
                let e = (t.ex + 1) % self.n_ex;
                v.push((vec![o(e, self.home[e], 0)], vec![t.clone()]));
            }
        }
        v
    }

    /// a long batch of opens under cids outside the pool, spread over the exchanges (and, on exchange 0, over
    /// its two instruments)
    fn bulk(&self, n: usize) -> Vec<RO> {
        (0..n)
            .map(|j| {
                let ex = j % self.n_ex;
                let ins = if ex == 0 { (j / self.n_ex) % 2 } else { self.home[ex] };
                RO { ex, ins, cid: format!("b{j}") }
            })
            .collect()
    }

    /// two opens of one batch: on two exchanges (on the two instruments of the only exchange if there is one)
    fn two_opens(&self, c0: &str, c1: &str) -> Vec<RO> {
        if self.n_ex >= 2 {
            vec![RO { ex: 0, ins: self.home[0], cid: c0.to_string() }, RO { ex: 1, ins: self.home[1], cid: c1.to_string() }]
        } else {
            vec![RO { ex: 0, ins: 1, cid: c0.to_string() }, RO { ex: 0, ins: 0, cid: c1.to_string() }]
        }
    }

    /// all link-mode vectors that differ on the `addressed` exchanges (others healthy)
    fn link_vectors(&self, addressed: &BTreeSet<usize>) -> Vec<Vec<Option<TxMode>>> {
        let mut out = vec![vec![Some(TxMode::Healthy); self.n_ex]];
        for &e in addressed.iter().filter(|e| **e < self.n_ex) {
            let mut next = Vec::with_capacity(out.len() * 4);
            for v in &out {
                for m in MODES {
                    let mut w = v.clone();
                    w[e] = m;
                    next.push(w);
                }
            }
            out = next;
        }
        out
    }
}

/// risk verdicts: (refuse all opens, refuse all cancels, individually refused cids)
fn risk_variants(opens: &[RO], cancels: &[RC]) -> Vec<(bool, bool, Vec<String>)> {
    let mut v = vec![(false, false, vec![])];
    if !opens.is_empty() {
        v.push((true, false, vec![]));
    }
    if !cancels.is_empty() {
        v.push((false, true, vec![]));
    }
    if !opens.is_empty() && !cancels.is_empty() {
        v.push((true, true, vec![]));
    }
    // partial refusal inside one batch of opens: approved and refused requests side by side
    if opens.len() >= 2 {
        v.push((false, false, vec![opens[0].cid.clone()]));
        v.push((false, false, vec![opens[1].cid.clone()]));
    }
    v
}
/// exchanges addressed by the requests of a proposal that the risk manager lets through
fn approved_exchanges(opens: &[RO], cancels: &[RC], ro: bool, rc: bool, cids: &[String]) -> BTreeSet<usize> {
    let mut addr = BTreeSet::new();
    if !ro {
        addr.extend(opens.iter().filter(|o| !cids.contains(&o.cid)).map(|o| o.ex));
    }
    if !rc {
        addr.extend(cancels.iter().filter(|c| !cids.contains(&c.cid)).map(|c| c.ex));
    }
    addr
}
/// one input event of the alphabet: symbol, number of fresh cids it consumes, exchanges its own requests
/// address, cancels the strategy adds to a ClosePositions answer
struct EvSpec {
    ev: Ev,
    used: usize,
    addr: BTreeSet<usize>,
    close_cancels: Vec<RC>,
}
fn spec(ev: Ev, used: usize, addr: BTreeSet<usize>) -> EvSpec {
    EvSpec { ev, used, addr, close_cancels: vec![] }
}

impl M {
    fn gen_actions(&self, es: &EState) -> Vec<Act> {
        let enabled = es.trading == TradingState::Enabled;
        let tr = tracked(es);
        let pool_tracked = tr.iter().filter(|t| POOL.contains(&t.1.as_str())).count();
        let room = self.max_tracked.saturating_sub(pool_tracked);
        let free: Vec<String> =
            POOL.iter().filter(|c| !tr.iter().any(|t| t.1 == **c)).map(|c| c.to_string()).collect();
        // cancel / snapshot targets: first and last tracked order
        let mut targets: Vec<RC> = Vec::new();
        if let Some(t) = tr.first() {
            targets.push(M::rc_of(t.0, &t.1, &t.2));
        }
        if tr.len() >= 2 {
            let t = tr.last().unwrap();
            targets.push(M::rc_of(t.0, &t.1, &t.2));
        }

        // ---- events
        let all_ex: BTreeSet<usize> = (0..self.n_ex).collect();
        let mut events: Vec<EvSpec> = Vec::new();
        let market_ins: Vec<usize> = [0usize, 2].into_iter().filter(|i| *i < es.instruments.0.len()).collect();
        for &i in &market_ins {
            events.push(spec(Ev::Market(i), 0, BTreeSet::new()));
        }
        for &i in &self.fill_ins {
            match es.instruments.0.get_index(i).map(|(_, s)| s.position.current.is_none()) {
                Some(true) => events.push(spec(Ev::Fill(i), 0, BTreeSet::new())),
                // the opposite fill: the tick on which the position is exited (the engine reports a
                // PositionExit output) is an account event like any other
                Some(false) => events.push(spec(Ev::FillExit(i), 0, BTreeSet::new())),
                None => {}
            }
        }
        // (an order naming an unknown exchange can only be tracked by a defective engine; no snapshot for it)
        for t in targets.iter().filter(|t| t.ex < self.n_ex) {
            events.push(spec(Ev::SnapOpen(t.clone()), 0, BTreeSet::new()));
            events.push(spec(Ev::SnapCancelled(t.clone()), 0, BTreeSet::new()));
        }
        events.push(spec(Ev::Trading(true), 0, BTreeSet::new()));
        events.push(spec(Ev::Trading(false), 0, BTreeSet::new()));
        if room >= 1 && !free.is_empty() {
            let o = |ex: usize, ins: usize, k: usize| RO { ex, ins, cid: free[k].clone() };
            for e in 0..self.n_ex {
                events.push(spec(Ev::CmdOpen(vec![o(e, self.home[e], 0)]), 1, [e].into()));
            }
            events.push(spec(Ev::CmdOpen(vec![o(self.n_ex, 0, 0)]), 1, BTreeSet::new()));
            if self.n_ex >= 2 {
                events.push(spec(Ev::CmdOpen(vec![o(1, 0, 0)]), 1, [1].into()));
            }
            if room >= 2 && free.len() >= 2 {
                let two = self.two_opens(&free[0], &free[1]);
                let addr = two.iter().map(|o| o.ex).collect();
                events.push(spec(Ev::CmdOpen(two), 2, addr));
            }
        }
        // the cid of a tracked order opened once more on ANOTHER instrument (client order ids are unique per
        // instrument only): later cancels / snapshots of one of the twins must leave the other alone
        if let Some(t) = targets.first().filter(|t| room >= 1 && POOL.contains(&t.cid.as_str())) {
            let e = (self.ex_of_ins(t.ins) + 1) % self.n_ex;
            if !tr.iter().any(|x| x.0 == self.home[e] && x.1 == t.cid) {
                events.push(spec(Ev::CmdOpen(vec![RO { ex: e, ins: self.home[e], cid: t.cid.clone() }]), 0, [e].into()));
            }
        }
        // an open that re-uses the cid of an order tracked on the SAME instrument and no longer open-in-flight
        // (a user / strategy re-submitting under an id it used before): it is a sent open like any other -
        // delivered once and from then on shown as (open) in flight
        for t in targets.iter().filter(|t| t.ex < self.n_ex && t.id.is_some()) {
            events.push(spec(Ev::CmdOpen(vec![RO { ex: t.ex, ins: t.ins, cid: t.cid.clone() }]), 0, [t.ex].into()));
        }
        for t in &targets {
            events.push(spec(Ev::CmdCancel(vec![t.clone()]), 0, [t.ex].into()));
        }
        // a cancel that names the order by its key only (`RequestCancel.id == None`: the issuer does not know, or
        // did not yet know, the exchange's order id) although the tracked order has been acknowledged
        for t in targets.iter().filter(|t| t.ex < self.n_ex && t.id.is_some()) {
            events.push(spec(Ev::CmdCancel(vec![RC { id: None, ..t.clone() }]), 0, [t.ex].into()));
        }
        if targets.len() == 2 {
            events.push(spec(Ev::CmdCancel(targets.clone()), 0, targets.iter().map(|t| t.ex).collect()));
        }
        events.push(spec(Ev::CmdCancel(vec![RC { ex: 0, ins: 0, cid: "zz".into(), id: None }]), 0, [0].into()));
        events.push(spec(Ev::CmdClose(Filt::All), 0, all_ex.clone()));
        events.push(spec(Ev::CmdClose(Filt::Ex(1)), 0, all_ex.clone()));
        // ClosePositions answered by the strategy with market orders AND a cancel (of a tracked order / of an
        // untracked id): link modes vary on the exchanges such a tick really addresses
        {
            let closing = |f: &Filt| -> BTreeSet<usize> {
                es.instruments.0.values().enumerate()
                    .filter(|(i, st)| st.position.current.is_some() && st.data.price().is_some() && self.filt_matches(f, *i))
                    .map(|(i, _)| self.ex_of_ins(i))
                    .collect()
            };
            // (not the order of an earlier ClosePositions: the closing market order of this very tick re-uses
            // its deterministic cid, and one tick cancelling and re-opening one cid is outside the alphabet)
            for t in targets.iter().filter(|t| !t.cid.starts_with("close-")) {
                let mut addr = closing(&Filt::All);
                addr.insert(t.ex);
                events.push(EvSpec { ev: Ev::CmdClose(Filt::All), used: 0, addr, close_cancels: vec![t.clone()] });
            }
            let mut addr = closing(&Filt::Ex(1));
            addr.insert(0);
            events.push(EvSpec { ev: Ev::CmdClose(Filt::Ex(1)), used: 0, addr, close_cancels: vec![RC { ex: 0, ins: 0, cid: "zc".into(), id: None }] });
        }
        events.push(spec(Ev::CmdCancelOrders(Filt::All), 0, all_ex.clone()));
        events.push(spec(Ev::CmdCancelOrders(Filt::Ins(0)), 0, all_ex.clone()));
        events.push(spec(Ev::Shutdown, 0, BTreeSet::new()));
        // probe events (no successor): the remaining event kinds of the engine's input alphabet
        for e in 0..self.n_ex {
            events.push(spec(Ev::AcctReconnecting(e), 0, BTreeSet::new()));
            events.push(spec(Ev::MktReconnecting(e), 0, BTreeSet::new()));
            events.push(spec(Ev::AcctSnapshot(e), 0, BTreeSet::new()));
        }
        events.push(spec(Ev::Balance(0), 0, BTreeSet::new()));
        events.push(spec(Ev::Balance(self.instruments.assets().len() - 1), 0, BTreeSet::new()));
        for t in targets.iter().filter(|t| t.ex < self.n_ex) {
            events.push(spec(Ev::CancelResp(t.clone(), true), 0, BTreeSet::new()));
            events.push(spec(Ev::CancelResp(t.clone(), false), 0, BTreeSet::new()));
        }
        for &i in &market_ins {
            events.push(spec(Ev::MarketL1(i), 0, BTreeSet::new()));
        }
        events.push(spec(Ev::CmdOpenBulk(BULK), 0, BTreeSet::new()));

        let mut acts = Vec::new();
        for EvSpec { ev, used, addr: ev_addr, close_cancels } in events {
            let is_cmd = matches!(ev, Ev::CmdOpen(_) | Ev::CmdOpenBulk(_) | Ev::CmdCancel(_) | Ev::CmdClose(_) | Ev::CmdCancelOrders(_));
            let probe = ev.is_probe();
            let enabled_after = match ev {
                Ev::Trading(b) => b,
                _ => enabled,
            };
            // full strategy menu where generation is the subject of the tick
            let full = enabled_after && !is_cmd && !probe && !matches!(ev, Ev::Shutdown);
            // the REAL channel type is driven on the command send path (SendOpen/SendCancelRequests), on the
            // enabling event and on the direct generate_algo_orders() calls below (the link type is
            // independent of the kind of event that precedes generation)
            let with_real = matches!(ev, Ev::CmdOpen(_) | Ev::CmdCancel(_) | Ev::Trading(true));
            let free_s = &free[used.min(free.len())..];
            let room_s = room.saturating_sub(used);
            // next to a command the strategy does not cancel tracked orders: the command may issue the
            // identical cancel and the two would be indistinguishable in the link logs
            let tg: &[RC] = if is_cmd { &[] } else { &targets };
            for (opens, cancels) in self.menus(tg, free_s, room_s, full) {
                let risks = if full { risk_variants(&opens, &cancels) } else { vec![(false, false, vec![])] };
                for (ro, rc, cids) in risks {
                    let mut addr = ev_addr.clone();
                    if enabled_after || enabled {
                        addr.extend(approved_exchanges(&opens, &cancels, ro, rc, &cids));
                    }
                    // probe events: healthy links only (the send path is not their subject)
                    let vectors = if probe { vec![vec![Some(TxMode::Healthy); self.n_ex]] } else { self.link_vectors(&addr) };
                    for links in vectors {
                        let act = Act {
                            ev: Some(ev.clone()),
                            opens: opens.clone(),
                            cancels: cancels.clone(),
                            refuse_opens: ro,
                            refuse_cancels: rc,
                            links,
                            refuse_cids: cids.clone(),
                            close_cancels: close_cancels.clone(),
                            real: false,
                        };
                        if with_real && !addr.is_empty() && !act.links.contains(&Some(TxMode::Unhealthy)) {
                            acts.push(Act { real: true, ..act.clone() });
                        }
                        acts.push(act);
                    }
                }
            }
            // a command next to a risk manager that refuses whatever it is asked (idle strategy, healthy links):
            // the command is still actioned - or, should the engine consult the risk manager for it, every
            // request it drops is reported as refused
            if is_cmd {
                acts.push(Act {
                    ev: Some(ev.clone()),
                    opens: vec![],
                    cancels: vec![],
                    refuse_opens: true,
                    refuse_cancels: true,
                    links: vec![Some(TxMode::Healthy); self.n_ex],
                    refuse_cids: vec![],
                    close_cancels: close_cancels.clone(),
                    real: false,
                });
            }
        }
        // ---- a long batch proposed by the strategy (on a probe event, healthy links, approving risk manager)
        if enabled {
            acts.push(Act {
                ev: Some(Ev::MarketL1(0)),
                opens: self.bulk(BULK),
                cancels: vec![],
                refuse_opens: false,
                refuse_cancels: false,
                links: vec![Some(TxMode::Healthy); self.n_ex],
                refuse_cids: vec![],
                close_cancels: vec![],
                real: false,
            });
        }
        // ---- direct calls of generate_algo_orders() (complete return value), only where the engine
        // itself would call it
        if enabled {
            for (opens, cancels) in self.menus(&targets, &free, room, true) {
                if opens.is_empty() && cancels.is_empty() {
                    continue;
                }
                for (ro, rc, cids) in risk_variants(&opens, &cancels) {
                    let addr = approved_exchanges(&opens, &cancels, ro, rc, &cids);
                    for links in self.link_vectors(&addr) {
                        let act = Act {
                            ev: None,
                            opens: opens.clone(),
                            cancels: cancels.clone(),
                            refuse_opens: ro,
                            refuse_cancels: rc,
                            links,
                            refuse_cids: cids.clone(),
                            close_cancels: vec![],
                            real: false,
                        };
                        if !addr.is_empty() && !act.links.contains(&Some(TxMode::Unhealthy)) {
                            acts.push(Act { real: true, ..act.clone() });
                        }
                        acts.push(act);
                    }
                }
            }
        }
        acts
    }
}

// ------------------------------------------------------------------------------------------------
// Observations and oracle
// ------------------------------------------------------------------------------------------------

#[derive(Clone, Copy, PartialEq, Eq, Debug)]
enum Src {
    Cmd,
    Algo,
}
impl Src {
    fn s(&self) -> &'static str {
        match self {
            Src::Cmd => "command",
            Src::Algo => "algo",
        }
    }
}

/// What the engine CLAIMS it did (audit outputs / direct return value).
#[derive(Default)]
struct Reports {
    sent: Vec<(Src, ExecutionRequest)>,
    /// (source, request, error is unrecoverable)
    failed: Vec<(Src, ExecutionRequest, bool)>,
    refused: Vec<ExecutionRequest>,
    algo_output: bool,
    cmd_output: Option<&'static str>,
    audit_errors: usize,
}
impl Reports {
    fn add_opens(&mut self, src: Src, o: &SendRequestsOutput<RequestOpen>) {
        for r in o.sent.iter() {
            self.sent.push((src, ExecutionRequest::Open(r.clone())));
        }
        for (r, e) in o.errors.iter() {
            self.failed.push((src, ExecutionRequest::Open(r.clone()), matches!(e, EngineError::Unrecoverable(_))));
        }
    }
    fn add_cancels(&mut self, src: Src, o: &SendRequestsOutput<RequestCancel>) {
        for r in o.sent.iter() {
            self.sent.push((src, ExecutionRequest::Cancel(r.clone())));
        }
        for (r, e) in o.errors.iter() {
            self.failed.push((src, ExecutionRequest::Cancel(r.clone()), matches!(e, EngineError::Unrecoverable(_))));
        }
    }
    fn add_algo(&mut self, src: Src, g: &GenerateAlgoOrdersOutput) {
        self.add_cancels(src, &g.cancels_and_opens.cancels);
        self.add_opens(src, &g.cancels_and_opens.opens);
        for r in g.cancels_refused.iter() {
            self.refused.push(ExecutionRequest::Cancel(r.item.clone()));
        }
        for r in g.opens_refused.iter() {
            self.refused.push(ExecutionRequest::Open(r.item.clone()));
        }
    }
    fn add_action(&mut self, ao: &ActionOutput) {
        match ao {
            ActionOutput::GenerateAlgoOrders(g) => {
                self.cmd_output = Some("GenerateAlgoOrders");
                self.add_algo(Src::Cmd, g)
            }
            ActionOutput::CancelOrders(o) => {
                self.cmd_output = Some("CancelOrders");
                self.add_cancels(Src::Cmd, o)
            }
            ActionOutput::OpenOrders(o) => {
                self.cmd_output = Some("OpenOrders");
                self.add_opens(Src::Cmd, o)
            }
            ActionOutput::ClosePositions(o) => {
                self.cmd_output = Some("ClosePositions");
                self.add_cancels(Src::Cmd, &o.cancels);
                self.add_opens(Src::Cmd, &o.opens)
            }
        }
    }
}

#[derive(Clone, Copy, PartialEq, Eq, Debug)]
enum LinkKind {
    Healthy,
    Gone,
    Absent,
    OutOfRange,
    Unhealthy,
}
impl LinkKind {
    fn s(&self) -> &'static str {
        match self {
            LinkKind::Healthy => "healthy-link",
            LinkKind::Gone => "closed-link",
            LinkKind::Absent => "no-link-for-exchange",
            LinkKind::OutOfRange => "exchange-index-out-of-range",
            LinkKind::Unhealthy => "unhealthy-link",
        }
    }
    /// the statement: fatal if the link is gone or the exchange has no link
    fn fatal(&self) -> bool {
        matches!(self, LinkKind::Gone | LinkKind::Absent | LinkKind::OutOfRange)
    }
}
fn link_kind(links: &[Option<TxMode>], ex: usize) -> LinkKind {
    match links.get(ex) {
        None => LinkKind::OutOfRange,
        Some(None) => LinkKind::Absent,
        Some(Some(TxMode::Healthy)) => LinkKind::Healthy,
        Some(Some(TxMode::Closed)) => LinkKind::Gone,
        Some(Some(TxMode::Unhealthy)) => LinkKind::Unhealthy,
    }
}

fn state_name(o: Option<&AOrder>) -> &'static str {
    match o.map(|o| &o.state) {
        None => "untracked",
        Some(ActiveOrderState::OpenInFlight(_)) => "open-in-flight",
        Some(ActiveOrderState::Open(_)) => "open",
        Some(ActiveOrderState::CancelInFlight(_)) => "cancel-in-flight",
    }
}
fn kind_name(r: &ExecutionRequest) -> &'static str {
    match r {
        ExecutionRequest::Open(_) => "open",
        ExecutionRequest::Cancel(_) => "cancel",
        ExecutionRequest::Shutdown => "shutdown",
    }
}

/// What actually happened: link logs and engine state before / after.
struct Obs<'a> {
    pre: &'a EState,
    post: &'a EState,
    logs: Vec<Vec<ExecutionRequest>>,
    links: &'a [Option<TxMode>],
    /// orders (instrument index, cid) the input event itself addresses (order snapshots, cancel responses)
    touched: Vec<(usize, String)>,
}
impl Obs<'_> {
    fn n_right(&self, r: &ExecutionRequest) -> usize {
        let ex = parts(r).1;
        self.logs.get(ex).map(|l| l.iter().filter(|x| *x == r).count()).unwrap_or(0)
    }
    fn n_total(&self, r: &ExecutionRequest) -> usize {
        self.logs.iter().map(|l| l.iter().filter(|x| *x == r).count()).sum()
    }
    /// Some(description) if `r` (which must not have been delivered) left a mark on the order it addresses
    /// (a change of any OTHER order - same cid on another instrument included - is the frame rule's subject)
    fn marked(&self, r: &ExecutionRequest, rep: &Reports) -> Option<String> {
        let (is_open, _, ins, cid) = parts(r);
        if self.touched.contains(&(ins, cid.clone())) {
            return None;
        }
        // the same order legitimately opened / cancelled by another (sent) request of this tick
        if rep.sent.iter().any(|(_, s)| parts(s).0 == is_open && parts(s).2 == ins && parts(s).3 == cid) {
            return None;
        }
        let (a, b) = (order_of(self.pre, ins, &cid), order_of(self.post, ins, &cid));
        if a != b {
            return Some(format!("order {cid} on instrument {ins}: {} -> {}", state_name(a), state_name(b)));
        }
        None
    }
    /// Frame rule ("... and no other order changed"): an order (instrument, cid) addressed neither by the
    /// input event nor by any request proposed, commanded, reported or delivered in this tick is unchanged.
    /// Orders are identified by instrument AND cid: client order ids are only unique per instrument.
    fn frame(&self, rep: &Reports, extra: &[ExecutionRequest], out: &mut Vec<Viol>) {
        let key = |r: &ExecutionRequest| (parts(r).2, parts(r).3);
        let mut addressed: Vec<(usize, String)> = self.touched.clone();
        addressed.extend(extra.iter().map(key));
        addressed.extend(rep.sent.iter().map(|(_, r)| key(r)));
        addressed.extend(rep.failed.iter().map(|(_, r, _)| key(r)));
        addressed.extend(rep.refused.iter().map(key));
        addressed.extend(self.logs.iter().flatten().map(key));
        let mut keys: Vec<(usize, String)> = tracked(self.pre).into_iter().map(|t| (t.0, t.1)).collect();
        keys.extend(tracked(self.post).into_iter().map(|t| (t.0, t.1)));
        keys.sort();
        keys.dedup();
        for (i, cid) in keys {
            if addressed.contains(&(i, cid.clone())) {
                continue;
            }
            let (a, b) = (order_of(self.pre, i, &cid), order_of(self.post, i, &cid));
            if a != b {
                let twin = addressed.iter().any(|(_, c)| *c == cid);
                let cause = if twin { "same-cid-on-other-instrument-changed" } else { "unaddressed-order-changed" };
                out.push((format!("C03/frame/{cause}"), format!("order {cid} on instrument {i} was addressed by nothing in this tick but changed {} -> {}", state_name(a), state_name(b))));
                return;
            }
        }
    }
    /// `r` opens an order under a (instrument, cid) that is already tracked
    fn reopen(&self, r: &ExecutionRequest) -> bool {
        let (is_open, _, ins, cid) = parts(r);
        is_open && order_of(self.pre, ins, &cid).is_some()
    }
    /// Some(description) if `r` is NOT shown as in flight although it should be
    fn not_in_flight(&self, r: &ExecutionRequest) -> Option<String> {
        let (is_open, _, ins, cid) = parts(r);
        let post = order_of(self.post, ins, &cid);
        if is_open {
            match post.map(|o| &o.state) {
                Some(ActiveOrderState::OpenInFlight(_)) => None,
                _ => Some(format!("opened order {cid} on instrument {ins} is {}", state_name(post))),
            }
        } else {
            // only "the tracked order it cancels": tracked before and not addressed by the input event
            if order_of(self.pre, ins, &cid).is_none() || self.touched.contains(&(ins, cid.clone())) {
                return None;
            }
            match post.map(|o| &o.state) {
                Some(ActiveOrderState::CancelInFlight(_)) => None,
                _ => Some(format!("cancelled order {cid} on instrument {ins} is {}", state_name(post))),
            }
        }
    }
}

/// Report-driven rules R1-R4: whatever the engine claims must be what happened.
/// Returns the cids of the requests it flagged (the input-driven rules skip those: one defect, one signature).
fn check_reports(obs: &Obs, rep: &Reports, has_audit: bool, out: &mut Vec<Viol>) -> Vec<String> {
    let n0 = out.len();
    let mut flagged = Vec::new();
    let mark = |out: &Vec<Viol>, n: usize, r: &ExecutionRequest, flagged: &mut Vec<String>| {
        if out.len() > n {
            flagged.push(parts(r).3);
        }
    };
    for (src, r) in &rep.sent {
        let n = out.len();
        let k = kind_name(r);
        let claimed = rep.sent.iter().filter(|(_, x)| x == r).count();
        let (nr, nt) = (obs.n_right(r), obs.n_total(r));
        let lk = link_kind(obs.links, parts(r).1);
        // the send path is shared by opens / cancels and by commands / algo orders: cause only
        let cause = if nr == claimed && nt == nr {
            None
        } else if nr < claimed {
            Some(if nt > nr { "delivered-to-wrong-link" } else { "not-delivered" })
        } else if nr > claimed {
            Some("delivered-more-than-once")
        } else {
            Some("also-delivered-to-other-link")
        };
        // "exactly once": no issuer of this alphabet proposes / commands the same request twice in one tick,
        // so one issuer reporting (and delivering) it twice has issued a duplicate
        let by_same_src = rep.sent.iter().filter(|(s, x)| s == src && x == r).count();
        if cause.is_none() && by_same_src > 1 {
            out.push((
                "C03/sent-delivered-once/issued-more-than-once".into(),
                format!("{} reported (and delivered) {by_same_src}x in one tick: {r:?}", src.s()),
            ));
        }
        if let Some(cause) = cause {
            out.push((
                format!("C03/sent-delivered-once/{cause}"),
                format!("{} reported sent {claimed}x: {r:?}; log of link {} ({}) holds it {nr}x, all links {nt}x", src.s(), parts(r).1, lk.s()),
            ));
        }
        if let Some(d) = obs.not_in_flight(r) {
            out.push((format!("C03/sent-then-in-flight/{}-{k}", src.s()), format!("reported sent: {r:?}; after the tick {d}")));
        }
        mark(out, n, r, &mut flagged);
    }
    for (src, r, fatal) in &rep.failed {
        let n = out.len();
        let k = kind_name(r);
        let lk = link_kind(obs.links, parts(r).1);
        if lk == LinkKind::Healthy {
            // an engine may decline to hand a request to a healthy link (a second open under a client order id
            // it still tracks, a batch limit, a validation, ...): the statement only demands that such a
            // request is reported with its error, nowhere delivered and leaves no mark - checked below
        } else if lk.fatal() && !*fatal {
            // "fatal if the link is gone or the exchange has no link". The converse is NOT demanded: whether a
            // send failure on a present (unhealthy) link is recoverable is the engine's choice - the statement
            // does not even quantify over that link state
            out.push((
                format!("C03/failed-error-class/{}/reported-{}", lk.s(), if *fatal { "fatal" } else { "recoverable" }),
                format!("request {r:?} failed on {}: error reported as {}", lk.s(), if *fatal { "unrecoverable" } else { "recoverable" }),
            ));
        }
        if obs.n_total(r) > 0 {
            out.push(("C03/failed-not-delivered".into(), format!("{} reported failed but found in a link log: {r:?}", src.s())));
        }
        if let Some(d) = obs.marked(r, rep) {
            out.push((format!("C03/failed-no-in-flight-mark/{}-{k}", src.s()), format!("reported failed ({}): {r:?}; yet {d}", lk.s())));
        }
        if *fatal && has_audit && rep.audit_errors == 0 {
            out.push(("C03/fatal-failure/tick-not-terminal".into(), format!("unrecoverable failure of {r:?} but the audit carries no error")));
        }
        mark(out, n, r, &mut flagged);
    }
    for r in &rep.refused {
        let n = out.len();
        let k = kind_name(r);
        if obs.n_total(r) > 0 {
            out.push((format!("C03/refused-never-delivered/{k}"), format!("reported refused but found in a link log: {r:?}")));
        }
        if let Some(d) = obs.marked(r, rep) {
            out.push((format!("C03/refused-no-in-flight-mark/{k}"), format!("reported refused: {r:?}; yet {d}")));
        }
        mark(out, n, r, &mut flagged);
    }
    let _ = n0;
    flagged
}

/// Expectation for one request that MUST have been issued (approved strategy request on a generating
/// tick, or a request of a SendOpen/SendCancel command): healthy link => delivered once, in flight,
/// reported sent; faulty link => nowhere delivered, no mark, reported failed. Requests already flagged
/// by the report-driven rules are skipped.
fn check_issued(obs: &Obs, rep: &Reports, flagged: &[String], src: Src, r: &ExecutionRequest, rule: &str, output_present: bool, out: &mut Vec<Viol>) {
    if flagged.contains(&parts(r).3) {
        return;
    }
    let k = kind_name(r);
    let lk = link_kind(obs.links, parts(r).1);
    // The request the engine issues for `r` is identified by kind + exchange + instrument + client order id, not
    // by field-for-field equality with the input: an engine may complete a request before it sends it (e.g. add
    // the exchange's order id it knows to a cancel that came without one). That what it REPORTS as sent is what
    // was delivered is R1's subject (`check_reports`, exact equality).
    let same = |x: &ExecutionRequest| parts(x) == parts(r);
    let nr = obs.logs.get(parts(r).1).map(|l| l.iter().filter(|x| same(x)).count()).unwrap_or(0);
    let nt: usize = obs.logs.iter().map(|l| l.iter().filter(|x| same(x)).count()).sum();
    let reported_failed = rep.failed.iter().any(|(s, x, _)| *s == src && same(x));
    // (see `check_reports`: a request may also be declined on a healthy link - reported failed, not delivered, no mark)
    if lk == LinkKind::Healthy && nt == 0 && reported_failed && obs.marked(r, rep).is_none() {
        return;
    }
    if lk == LinkKind::Healthy {
        // a command and the strategy may issue the identical cancel in one tick: then it is reported
        // (and, by R1, delivered) once per issuer
        let want = rep.sent.iter().filter(|(_, x)| same(x)).count().max(1);
        if nr != want || nt != want {
            out.push((format!("{rule}/not-delivered-once"), format!("{r:?} must be issued on a healthy link: named link holds it {nr}x, all links {nt}x (expected {want}x)")));
        } else if let Some(d) = obs.not_in_flight(r) {
            out.push((format!("{rule}/{k}-not-in-flight"), format!("{r:?} issued but {d}")));
        } else if output_present && !rep.sent.iter().any(|(s, x)| *s == src && same(x)) {
            out.push((format!("{rule}/not-reported-sent"), format!("{r:?} issued but missing from the reported `sent`")));
        }
    } else if nt > 0 {
        out.push((format!("{rule}/delivered-despite-link-fault"), format!("{r:?} addresses {} but was found in a link log", lk.s())));
    } else if let Some(d) = obs.marked(r, rep) {
        out.push((format!("C03/failed-no-in-flight-mark/{}-{k}", src.s()), format!("{r:?} cannot be delivered ({}), yet {d}", lk.s())));
    } else if output_present && !reported_failed {
        out.push((format!("{rule}/failure-not-reported"), format!("{r:?} cannot be delivered ({}) but is missing from the reported errors", lk.s())));
    }
}

// ------------------------------------------------------------------------------------------------
// Transition = one real Engine::process (or one direct generate_algo_orders) + oracle
// ------------------------------------------------------------------------------------------------

fn ev_kind(ev: &Ev) -> &'static str {
    match ev {
        Ev::Market(_) => "market",
        Ev::Fill(_) => "account-fill",
        Ev::FillExit(_) => "account-fill-position-exit",
        Ev::SnapOpen(_) | Ev::SnapCancelled(_) => "account-order-snapshot",
        Ev::Trading(true) => "trading-enabled",
        Ev::Trading(false) => "trading-disabled",
        Ev::CmdOpen(_) | Ev::CmdOpenBulk(_) => "send-open-requests",
        Ev::CmdCancel(_) => "send-cancel-requests",
        Ev::CmdClose(_) => "close-positions",
        Ev::CmdCancelOrders(_) => "cancel-orders",
        Ev::Shutdown => "shutdown",
        Ev::AcctReconnecting(_) => "account-reconnecting",
        Ev::MktReconnecting(_) => "market-reconnecting",
        Ev::Balance(_) => "account-balance-snapshot",
        Ev::AcctSnapshot(_) => "account-full-snapshot",
        Ev::CancelResp(..) => "account-cancel-response",
        Ev::MarketL1(_) => "market-l1",
    }
}

impl M {
    fn strategy_for(&self, a: &Act) -> (XStrategy, XRisk) {
        let strategy = XStrategy {
            opens: a.opens.iter().map(open_req).collect(),
            cancels: a.cancels.iter().map(cancel_req).collect(),
            close_cancels: a.close_cancels.iter().map(cancel_req).collect(),
            ..Default::default()
        };
        (strategy, XRisk { refuse_opens: a.refuse_opens, refuse_cancels: a.refuse_cancels, refuse_cids: a.refuse_cids.clone() })
    }

    /// Close the real engine around `pre` with the seams of this tick (scripted or real links), run the job.
    /// Returns (result | Err = the code under test panicked, state after, deliveries per exchange index).
    fn run_job(&self, pre: &EState, a: &Act, job: &Job) -> (Result<Done, ()>, EState, Vec<Vec<ExecutionRequest>>) {
        let (res, post, logs, _) = self.run_job_consulted(pre, a, job);
        (res, post, logs)
    }

    /// `run_job` + the trading state (enabled?) of every state the strategy was consulted on
    fn run_job_consulted(&self, pre: &EState, a: &Act, job: &Job) -> (Result<Done, ()>, EState, Vec<Vec<ExecutionRequest>>, Vec<bool>) {
        let (strategy, risk) = self.strategy_for(a);
        let consulted = strategy.consulted.clone();
        let consulted = move || consulted.lock().unwrap().clone();
        let mode = |i: usize| a.links.get(i).copied().unwrap_or(Some(TxMode::Healthy));
        let exchanges = self.instruments.exchanges();
        if a.real {
            bump(&self.cov.real_channel_ticks);
            let mut rxs = Vec::new();
            let mut txs: Vec<(ExchangeId, Option<UnboundedTx<ExecutionRequest>>)> = Vec::new();
            for (i, ex) in exchanges.iter().enumerate() {
                match mode(i) {
                    None => {
                        txs.push((ex.value, None));
                        rxs.push(None);
                    }
                    Some(TxMode::Healthy) => {
                        let (tx, rx) = mpsc_unbounded();
                        txs.push((ex.value, Some(tx)));
                        rxs.push(Some(rx));
                    }
                    Some(TxMode::Closed) => {
                        let (tx, rx) = mpsc_unbounded::<ExecutionRequest>();
                        drop(rx);
                        txs.push((ex.value, Some(tx)));
                        rxs.push(None);
                    }
                    Some(TxMode::Unhealthy) => panic!("C03: the real channel type has no recoverable send error"),
                }
            }
            let mut engine: XEngine<UnboundedTx<ExecutionRequest>> =
                Engine::new(ScriptClock::default(), pre.clone(), MultiExchangeTxMap::from_iter(txs), strategy, risk);
            let res = exec(&mut engine, job);
            let mut links = LinkSet::Real(rxs);
            let logs = links.logs();
            (res, engine.state, logs, consulted())
        } else {
            let txs: Vec<(ExchangeId, Option<ScriptTx>)> =
                exchanges.iter().enumerate().map(|(i, ex)| (ex.value, mode(i).map(ScriptTx::new))).collect();
            let map = MultiExchangeTxMap::from_iter(txs.iter().map(|(e, t)| (*e, t.clone())));
            let mut engine: XEngine<ScriptTx> = Engine::new(ScriptClock::default(), pre.clone(), map, strategy, risk);
            let res = exec(&mut engine, job);
            let mut links = LinkSet::Script(txs.into_iter().map(|(_, t)| t).collect());
            let logs = links.logs();
            (res, engine.state, logs, consulted())
        }
    }

    fn step_direct(&self, pre: &EState, a: &Act, out: &mut Vec<Viol>) {
        bump(&self.cov.direct_calls);
        let (res, post, logs) = self.run_job(pre, a, &Job::Direct);
        let Ok(Done::Algo(output)) = res else {
            out.push(("C03/panic/generate-algo-orders".into(), "generate_algo_orders() panicked".into()));
            return;
        };
        let mut rep = Reports { algo_output: true, ..Default::default() };
        rep.add_algo(Src::Algo, &output);
        let obs = Obs { pre, post: &post, logs, links: &a.links, touched: vec![] };
        self.count(&rep);
        let flagged = check_reports(&obs, &rep, false, out);
        obs.frame(&rep, &self.proposals(a).into_iter().map(|p| p.0).collect::<Vec<_>>(), out);
        // the return value is complete: every proposed request is classified exactly
        for (r, refused) in self.proposals(a) {
            if refused {
                self.check_refused(&obs, &rep, &r, true, out);
            } else {
                check_issued(&obs, &rep, &flagged, Src::Algo, &r, "C03/enabled-generates/direct-call", true, out);
            }
        }
    }

    /// strategy proposals of the tick as execution requests + whether the scripted risk manager refuses them
    fn proposals(&self, a: &Act) -> Vec<(ExecutionRequest, bool)> {
        let mut v: Vec<(ExecutionRequest, bool)> = Vec::new();
        for c in &a.cancels {
            v.push((ExecutionRequest::Cancel(cancel_req(c)), a.refuse_cancels || a.refuse_cids.contains(&c.cid)));
        }
        for o in &a.opens {
            v.push((ExecutionRequest::Open(open_req(o)), a.refuse_opens || a.refuse_cids.contains(&o.cid)));
        }
        v
    }

    fn check_refused(&self, obs: &Obs, rep: &Reports, r: &ExecutionRequest, output_present: bool, out: &mut Vec<Viol>) {
        let k = kind_name(r);
        if obs.n_total(r) > 0 {
            out.push((format!("C03/refused-never-delivered/{k}"), format!("risk manager refused {r:?} but it is in a link log")));
        }
        if let Some(d) = obs.marked(r, rep) {
            out.push((format!("C03/refused-no-in-flight-mark/{k}"), format!("risk manager refused {r:?}; yet {d}")));
        }
        if output_present && !rep.refused.iter().any(|x| x == r) {
            out.push((format!("C03/refused-reported/{k}-missing-from-refused-list"), format!("risk manager refused {r:?} but the output does not list it as refused")));
        }
    }

    fn count(&self, rep: &Reports) {
        addn(&self.cov.requests_sent, rep.sent.len());
        addn(&self.cov.requests_refused, rep.refused.len());
        addn(&self.cov.requests_failed_fatal, rep.failed.iter().filter(|f| f.2).count());
        addn(&self.cov.requests_failed_recoverable, rep.failed.iter().filter(|f| !f.2).count());
        bump(&self.cov.oracle_evaluations);
    }

    fn step_process(&self, pre: &EState, ev: &Ev, a: &Act, out: &mut Vec<Viol>) -> Option<EState> {
        let event = self.event(ev, pre);
        bump(&self.cov.process_calls);
        let probe = ev.is_probe();
        if probe {
            bump(&self.cov.probe_ticks);
        }
        // a long batch is judged like the SendOpenRequests command it is
        let expanded;
        let ev = if let Ev::CmdOpenBulk(n) = ev {
            bump(&self.cov.bulk_ticks);
            expanded = Ev::CmdOpen(self.bulk(*n));
            &expanded
        } else {
            ev
        };
        if a.opens.len() >= BULK {
            bump(&self.cov.bulk_ticks);
        }
        addn(&self.cov.close_positions_cancels, a.close_cancels.len());
        let (res, post_state, logs, consulted) = self.run_job_consulted(pre, a, &Job::Process(event.clone()));
        let Ok(Done::Audit(audit)) = res else {
            out.push((format!("C03/panic/process-{}", ev_kind(ev)), format!("Engine::process panicked on {ev:?}")));
            return None;
        };
        let post = &post_state;
        let pre_enabled = pre.trading == TradingState::Enabled;
        let post_enabled = post.trading == TradingState::Enabled;
        let trading = if pre_enabled { "enabled" } else { "disabled" };

        // ---- what the engine claims
        let mut rep = Reports::default();
        if let EngineAudit::Process(p) = &audit {
            rep.audit_errors = p.errors.len();
            for o in p.outputs.iter() {
                match o {
                    EngineOutput::Commanded(ao) => rep.add_action(ao),
                    EngineOutput::AlgoOrders(g) => {
                        rep.algo_output = true;
                        rep.add_algo(Src::Algo, g)
                    }
                    _ => {}
                }
            }
        }
        let mut touched = self.touched(ev);
        if let Ev::AcctSnapshot(e) = ev {
            // a full account snapshot speaks about EVERY order of its exchange (an order it does not list is
            // information too: an engine may reconcile its resting orders against it) - order lifecycle, C01
            for (i, cid, _) in tracked(pre).into_iter().chain(tracked(post)) {
                if self.ex_of_ins(i) == *e && !touched.contains(&(i, cid.clone())) {
                    touched.push((i, cid));
                }
            }
        }
        let obs = Obs { pre, post, logs, links: &a.links, touched };
        self.count(&rep);
        if matches!(ev, Ev::FillExit(_)) {
            bump(&self.cov.position_exit_ticks);
        }
        for (_, r) in &rep.sent {
            let (is_open, _, ins, cid) = parts(r);
            if is_open && order_of(pre, ins, &cid).is_some_and(|o| !matches!(o.state, ActiveOrderState::OpenInFlight(_))) {
                bump(&self.cov.reopens_of_tracked_cid_sent);
            }
        }
        if rep.audit_errors > 0 {
            bump(&self.cov.terminal_ticks);
            // "fatal": the audit of a tick that carries an unrecoverable error is terminal for the engine's
            // run loops (`Terminal::is_terminal`, the very predicate sync_run / async_run stop on)
            if !audit.is_terminal() {
                out.push(("C03/fatal-failure/tick-not-terminal".into(), format!("{ev:?}: the audit carries {} unrecoverable error(s) but is_terminal() is false - the engine would carry on", rep.audit_errors)));
            }
        }

        // ---- R1-R4 on everything reported
        let flagged = check_reports(&obs, &rep, true, out);
        {
            let mut extra: Vec<ExecutionRequest> = self.proposals(a).into_iter().map(|p| p.0).collect();
            match ev {
                Ev::CmdOpen(rs) => extra.extend(rs.iter().map(|r| ExecutionRequest::Open(open_req(r)))),
                Ev::CmdCancel(rs) => extra.extend(rs.iter().map(|r| ExecutionRequest::Cancel(cancel_req(r)))),
                _ => {}
            }
            extra.extend(a.close_cancels.iter().map(|r| ExecutionRequest::Cancel(cancel_req(r))));
            obs.frame(&rep, &extra, out);
        }

        // ---- R1 across ticks ("exactly once"): a delivery that nobody issued in THIS tick (not reported sent,
        // not proposed by the strategy, not part of the command) and that opens an order already tracked /
        // cancels an order already shown as cancel-in-flight is a second delivery of a request of an
        // earlier tick (client order ids are unique per order and instrument)
        {
            let mut issued: Vec<ExecutionRequest> = self.proposals(a).into_iter().map(|p| p.0).collect();
            match ev {
                Ev::CmdOpen(rs) => issued.extend(rs.iter().map(|r| ExecutionRequest::Open(open_req(r)))),
                Ev::CmdCancel(rs) => issued.extend(rs.iter().map(|r| ExecutionRequest::Cancel(cancel_req(r)))),
                _ => {}
            }
            issued.extend(a.close_cancels.iter().map(|r| ExecutionRequest::Cancel(cancel_req(r))));
            for d in obs.logs.iter().flatten() {
                if rep.sent.iter().any(|(_, x)| x == d) || issued.contains(d) {
                    continue;
                }
                // the market orders of THIS tick's ClosePositions command (cids `close-<instrument>` by
                // construction of `XStrategy`) are issued in this tick even if the audit does not list them
                if matches!(ev, Ev::CmdClose(_)) && parts(d).0 && parts(d).3.starts_with("close-") {
                    continue;
                }
                let (is_open, _, ins, cid) = parts(d);
                let again = match (is_open, order_of(pre, ins, &cid).map(|o| &o.state)) {
                    (true, Some(_)) => true,
                    (false, Some(ActiveOrderState::CancelInFlight(_))) => true,
                    _ => false,
                };
                if again {
                    out.push((format!("C03/sent-delivered-once/redelivered-in-later-tick/{}", kind_name(d)), format!("{ev:?}: {d:?} reached a link although nothing issued it in this tick and its order is already {}", state_name(order_of(pre, ins, &cid)))));
                    break;
                }
            }
        }

        // ---- R3 converse: only a gone / absent / unknown link is fatal. When every link of the tick is present
        // (healthy or merely unhealthy) and no request names an unknown exchange, no unrecoverable error can
        // have arisen: the audit must not carry one (the engine must not stop on a recoverable send failure)
        if rep.audit_errors > 0 {
            let link_gone = a.links.iter().any(|l| matches!(l, None | Some(TxMode::Closed)));
            let mut named: Vec<usize> = self.proposals(a).iter().map(|p| parts(&p.0).1).collect();
            match ev {
                Ev::CmdOpen(rs) => named.extend(rs.iter().map(|r| r.ex)),
                Ev::CmdCancel(rs) => named.extend(rs.iter().map(|r| r.ex)),
                _ => {}
            }
            named.extend(a.close_cancels.iter().map(|c| c.ex));
            named.extend(rep.sent.iter().map(|(_, r)| parts(r).1));
            named.extend(rep.failed.iter().map(|(_, r, _)| parts(r).1));
            named.extend(tracked(pre).iter().map(|t| t.2.key.exchange.index()));
            // (a failure on an unhealthy link may be classified either way by the engine; what stays demanded is
            // consistency: the engine does not stop when every link is healthy, nor when every failure it
            // reports is - by its own report - recoverable)
            let unhealthy = a.links.iter().any(|l| matches!(l, Some(TxMode::Unhealthy)));
            let self_declared_recoverable = !rep.failed.is_empty() && rep.failed.iter().all(|f| !f.2);
            if !link_gone && named.iter().all(|e| *e < self.n_ex) && (self_declared_recoverable || (rep.failed.is_empty() && !unhealthy)) {
                bump(&self.cov.recoverable_only_ticks_checked);
                out.push(("C03/recoverable-failure/tick-terminal".into(), format!("{ev:?}: no link is gone, every request names a known exchange and no failure is reported as unrecoverable, yet the audit carries {} unrecoverable error(s)", rep.audit_errors)));
            }
        } else if rep.failed.iter().any(|f| !f.2) {
            bump(&self.cov.recoverable_only_ticks_checked);
        }

        // ---- trading state itself follows the update (needed to phrase R5/R6). Not judged on a terminal tick:
        // an engine that is about to stop on an unrecoverable error may switch trading off by itself
        if rep.audit_errors > 0 {
        } else if let Ev::Trading(b) = ev {
            if post_enabled != *b {
                out.push(("C03/trading-state/update-not-applied".into(), format!("TradingStateUpdate({b}) left trading enabled={post_enabled}")));
            }
        } else if post_enabled != pre_enabled {
            out.push((format!("C03/trading-state/changed-by-{}", ev_kind(ev)), format!("{ev:?} changed trading enabled {pre_enabled} -> {post_enabled}")));
        }

        // ---- R5 / R6: is the strategy's proposal to be issued on this tick?
        let is_cmd = matches!(ev, Ev::CmdOpen(_) | Ev::CmdCancel(_) | Ev::CmdClose(_) | Ev::CmdCancelOrders(_));
        let enabled_after = match ev {
            Ev::Trading(b) => *b,
            _ => pre_enabled,
        };
        // Some(true) = must generate, Some(false) = must not, None = statement silent
        // The tick that disables trading ends with trading disabled: requests the strategy generated
        // on it were issued "while disabled" (the mirror image of "re-enabling resumes generation on
        // that very event"), so it is judged like any other disabled tick, under its own signature.
        let disabling = !enabled_after && pre_enabled;
        // ... unless the strategy was only consulted on a state in which trading was STILL enabled (an engine
        // that lets the strategy act one last time before it applies the update issues nothing "while
        // disabled"): then the statement is silent about this tick
        let final_pass_while_enabled = disabling && !consulted.is_empty() && consulted.iter().all(|enabled| *enabled);
        let must_gen: Option<bool> = if final_pass_while_enabled {
            None
        } else if !enabled_after {
            Some(false)
        } else if is_cmd || matches!(ev, Ev::Shutdown | Ev::AcctReconnecting(_) | Ev::MktReconnecting(_)) {
            // (a reconnect notice is not an "event" in the sense of R6: whether the strategy is consulted on
            // it while enabled is not demanded)
            None
        } else {
            Some(true)
        };
        let proposals = self.proposals(a);
        let algo_reported = rep.algo_output
            || rep.sent.iter().any(|(s, _)| *s == Src::Algo)
            || rep.failed.iter().any(|(s, _, _)| *s == Src::Algo)
            || !rep.refused.is_empty();
        match must_gen {
            Some(false) => {
                if !proposals.is_empty() {
                    bump(&self.cov.disabled_ticks_with_strategy_proposal);
                }
                // one signature per leaking tick: delivered > marked > merely reported
                let mut leak: Option<(&str, String)> = None;
                for (r, _) in &proposals {
                    // a command of this very tick may legitimately carry the same cancel
                    let by_cmd = rep.sent.iter().any(|(s, x)| *s == Src::Cmd && x == r);
                    if obs.n_total(r) > 0 && !by_cmd {
                        leak = Some(("delivered", format!("strategy proposal {r:?} reached a link")));
                        break;
                    }
                    if leak.is_none() {
                        if let Some(d) = obs.marked(r, &rep) {
                            leak = Some(("marked-in-flight", format!("strategy proposal {r:?}: {d}")));
                        }
                    }
                }
                // (an algo output that only lists requests as REFUSED claims nothing was issued - an engine may
                // report what the strategy would have done while disabled; R4 checks those were not delivered / marked)
                let algo_issue_reported = rep.sent.iter().any(|(s, _)| *s == Src::Algo) || rep.failed.iter().any(|(s, _, _)| *s == Src::Algo);
                if leak.is_none() && algo_issue_reported {
                    leak = Some(("reported", "audit reports strategy requests as sent / failed".into()));
                }
                if let Some((what, d)) = leak {
                    let when = if disabling { "disabled/on-the-disabling-event" } else { "disabled" };
                    out.push((format!("C03/{when}/strategy-request-{what}"), format!("trading disabled, event {ev:?}: {d}")));
                }
            }
            Some(true) => {
                let enabling = matches!(ev, Ev::Trading(true)) && !pre_enabled;
                if enabling {
                    bump(&self.cov.enabling_event_generations);
                }
                let rule = if enabling { "C03/enabled-generates/on-the-enabling-event" } else { "C03/enabled-generates/on-enabled-event" };
                // the audit drops the algo output next to a fatal algo error: then only link logs and state are checked
                let output_present = rep.algo_output;
                if !output_present && !proposals.is_empty() && rep.audit_errors > 0 {
                    bump(&self.cov.audit_dropped_algo_output);
                }
                let must_report = output_present || rep.audit_errors == 0;
                // no trace of generation at all (nothing reported, nothing delivered, no error): one signature
                let any_trace = algo_reported || rep.audit_errors > 0 || proposals.iter().any(|(r, _)| obs.n_total(r) > 0);
                // Generation is DEMANDED only on the enabling event ("re-enabling resumes generation on that very
                // event"). On which other events an enabled engine consults its strategy is not fixed by the
                // statement (it may skip a no-op trading update, balance snapshots, ...): there the rules below
                // apply only if generation left a trace
                if !proposals.is_empty() && !any_trace && enabling {
                    out.push((format!("{rule}/strategy-output-not-issued"), format!("event {ev:?} leaves trading enabled but the strategy's proposal {:?} was neither delivered, reported nor refused", proposals.iter().map(|p| &p.0).collect::<Vec<_>>())));
                }
                for (r, refused) in proposals.iter().filter(|_| any_trace) {
                    if touched_conflict(&obs, r) {
                        continue;
                    }
                    if *refused {
                        self.check_refused(&obs, &rep, r, must_report, out);
                    } else {
                        check_issued(&obs, &rep, &flagged, Src::Algo, r, rule, must_report, out);
                        if link_kind(&a.links, parts(r).1).fatal() && rep.audit_errors == 0 && !flagged.contains(&parts(r).3) {
                            out.push(("C03/fatal-failure/tick-not-terminal".into(), format!("{r:?} addressed {} but the audit carries no error", link_kind(&a.links, parts(r).1).s())));
                        }
                    }
                }
            }
            None => {
                // generation optional: refusals must still hold if it ran
                for (r, refused) in &proposals {
                    if *refused && !touched_conflict(&obs, r) {
                        self.check_refused(&obs, &rep, r, false, out);
                    }
                }
            }
        }

        // ---- commands are actioned whatever the trading state
        if is_cmd {
            if !pre_enabled {
                bump(&self.cov.commands_while_disabled);
            }
            if a.refuse_opens && a.refuse_cancels && proposals.is_empty() {
                bump(&self.cov.commands_under_refusing_risk);
            }
            let rule = format!("C03/command-actioned/while-{trading}");
            let want = match ev {
                Ev::CmdOpen(_) => "OpenOrders",
                Ev::CmdCancel(_) | Ev::CmdCancelOrders(_) => "CancelOrders",
                _ => "ClosePositions",
            };
            // (an engine that consults the risk manager for commands would report through the output kind
            // that has `refused` lists)
            // (... and next to an unrecoverable error the audit may carry the errors only - as the shipped engine
            // does for a failed algo generation; then only link logs and state are judged)
            let cmd_output_present = rep.cmd_output.is_some();
            let output_ok = rep.cmd_output == Some(want)
                || (rep.cmd_output == Some("GenerateAlgoOrders") && !rep.refused.is_empty())
                || (!cmd_output_present && rep.audit_errors > 0);
            if !output_ok {
                out.push((format!("{rule}/no-{want}-output"), format!("{ev:?}: audit carries command output {:?}", rep.cmd_output)));
            }
            // "a request refused by the risk manager is reported as refused and never delivered": the one way a
            // commanded request may stay unissued (the shipped engine bypasses the risk manager for commands)
            let refused_ok = |r: &ExecutionRequest| rep.refused.contains(r) && obs.n_total(r) == 0 && obs.marked(r, &rep).is_none();
            // (a command that left no output at all is reported once, not once per request)
            match ev {
                _ if !output_ok => {}
                Ev::CmdOpen(rs) => {
                    for r in rs.iter().map(|r| ExecutionRequest::Open(open_req(r))).filter(|r| !refused_ok(r)) {
                        check_issued(&obs, &rep, &flagged, Src::Cmd, &r, &rule, cmd_output_present, out);
                    }
                }
                Ev::CmdCancel(rs) => {
                    for r in rs.iter().map(|r| ExecutionRequest::Cancel(cancel_req(r))).filter(|r| !refused_ok(r)) {
                        check_issued(&obs, &rep, &flagged, Src::Cmd, &r, &rule, cmd_output_present, out);
                    }
                }
                Ev::CmdCancelOrders(_) | Ev::CmdClose(_) => {
                    // the cancels the strategy answered a ClosePositions command with are requests of the command:
                    // issued like those of SendCancelRequests (healthy link => delivered once, in flight, reported;
                    // else failed)
                    for r in a.close_cancels.iter().map(|r| ExecutionRequest::Cancel(cancel_req(r))).filter(|r| !refused_ok(r)) {
                        check_issued(&obs, &rep, &flagged, Src::Cmd, &r, &rule, cmd_output_present, out);
                    }
                    // WHICH orders / positions a filter command covers is its own semantics (C19), not this
                    // property's. "Still actions external commands" while disabled = the command does what it does
                    // on an enabled engine: same deliveries, same orders afterwards (idle strategy, same links).
                    if !pre_enabled && proposals.is_empty() {
                        let mut pre_on = pre.clone();
                        pre_on.trading = TradingState::Enabled;
                        let (res_on, post_on, logs_on) = self.run_job(&pre_on, a, &Job::Process(event.clone()));
                        let canon_logs = |logs: &Vec<Vec<ExecutionRequest>>| -> Vec<Vec<String>> {
                            logs.iter().map(|l| { let mut v: Vec<String> = l.iter().map(|r| format!("{r:?}")).collect(); v.sort(); v }).collect()
                        };
                        if res_on.is_ok() && (canon_logs(&logs_on) != canon_logs(&obs.logs) || tracked(&post_on) != tracked(post)) {
                            let what = if matches!(ev, Ev::CmdCancelOrders(_)) { "cancel-orders" } else { "close-positions" };
                            out.push((format!("{rule}/{what}-differs-from-enabled-engine"), format!("{ev:?}: deliveries while disabled {:?}, on the same state with trading enabled {:?}", canon_logs(&obs.logs), canon_logs(&logs_on))));
                        }
                    }
                }
                _ => {}
            }
        }

        // ---- R5: state keeps updating while disabled = same update as an enabled engine performs
        let state_event = (probe && !is_cmd) || matches!(ev, Ev::Market(_) | Ev::Fill(_) | Ev::FillExit(_) | Ev::SnapOpen(_) | Ev::SnapCancelled(_));
        if !pre_enabled && proposals.is_empty() && state_event {
            bump(&self.cov.disabled_state_updates_checked);
            let healthy = vec![Some(TxMode::Healthy); self.n_ex];
            let (mut e2, _t) = mk_engine(&self.instruments, pre.clone(), &healthy, ScriptStrategy::default(), ScriptRisk::default());
            let same = crate::core::guarded(|| {
                let _ = e2.process(EngineEvent::TradingStateUpdate(TradingState::Enabled));
                let _ = e2.process(event.clone());
                e2.state.instruments == post.instruments && e2.state.assets == post.assets && e2.state.connectivity == post.connectivity
            })
            .unwrap_or(true);
            if !same {
                out.push((format!("C03/disabled-state-still-updates/{}", ev_kind(ev)), format!("{ev:?} processed while disabled leaves a state different from the one an enabled engine (idle strategy) reaches")));
            }
            if pre.instruments != post.instruments || pre.connectivity != post.connectivity || pre.assets != post.assets {
                bump(&self.cov.disabled_state_updates_changed_state);
                if probe {
                    bump(&self.cov.disabled_probe_updates_changed_state);
                }
            }
        }

        // terminal tick (fatal error or shutdown): the engine stops, no successor
        if rep.audit_errors > 0 || matches!(ev, Ev::Shutdown) || probe {
            return None;
        }
        Some(post_state)
    }
}

/// the strategy proposal cancels an order the input event itself addresses: outcome depends on the
/// order-lifecycle rules (C01), not demanded here
fn touched_conflict(obs: &Obs, r: &ExecutionRequest) -> bool {
    obs.touched.contains(&(parts(r).2, parts(r).3))
}

impl Model for M {
    type State = St;
    type Action = Act;

    fn init(&self) -> Vec<St> {
        [TradingState::Disabled, TradingState::Enabled]
            .into_iter()
            .map(|trading| {
                if !self.funded {
                    return st_of(fresh_state(&self.instruments, trading));
                }
                // the real engine (idle strategy, trading enabled) processes one balance snapshot per asset;
                // the trading state of the root is set afterwards (whether a DISABLED engine keeps its
                // balances up to date is rule R5's subject, not a precondition of this configuration)
                let fresh = fresh_state(&self.instruments, TradingState::Enabled);
                let healthy = vec![Some(TxMode::Healthy); self.n_ex];
                let (mut engine, _t) = mk_engine(&self.instruments, fresh, &healthy, ScriptStrategy::default(), ScriptRisk::default());
                for k in 0..self.instruments.assets().len() {
                    let free = if self.ex_of_asset(k) == 0 { 5 } else { 1000 };
                    let _ = engine.process(EngineEvent::Account(AccountStreamEvent::Item(AccountEvent {
                        exchange: ExchangeIndex(self.ex_of_asset(k)),
                        kind: AccountEventKind::BalanceSnapshot(Snapshot(AssetBalance {
                            asset: AssetIndex(k),
                            balance: Balance { total: Decimal::from(free), free: Decimal::from(free) },
                            time_exchange: t_plus(0),
                        })),
                    })));
                }
                // (an engine that ignores balance snapshots leaves the root unfunded: the exploration is then the
                // plain one again - sound, and counted in the evidence)
                if engine.state.assets.0.values().all(|a| a.balance.is_some()) {
                    bump(&self.cov.funded_roots);
                }
                engine.state.trading = trading;
                st_of(engine.state)
            })
            .collect()
    }
    fn actions(&self, s: &St) -> Vec<Act> {
        self.gen_actions(&s.es)
    }
    fn step(&self, s: &St, a: &Act, out: &mut Vec<Viol>) -> Option<St> {
        match &a.ev {
            None => {
                self.step_direct(&s.es, a, out);
                None
            }
            Some(ev) => self.step_process(&s.es, ev, a, out).map(st_of),
        }
    }
    fn impl_hash(&self, s: &St) -> Option<u64> {
        Some(crate::core::hash_of(&*s.key))
    }
}

fn cov_json(c: &Cov) -> Value {
    let g = |a: &AtomicU64| a.load(Ordering::Relaxed);
    json!({
        "process_calls": g(&c.process_calls),
        "direct_generate_calls": g(&c.direct_calls),
        "oracle_evaluations": g(&c.oracle_evaluations),
        "requests_reported_sent": g(&c.requests_sent),
        "requests_reported_failed_fatal": g(&c.requests_failed_fatal),
        "requests_reported_failed_recoverable": g(&c.requests_failed_recoverable),
        "requests_reported_refused": g(&c.requests_refused),
        "terminal_ticks": g(&c.terminal_ticks),
        "audit_dropped_algo_output": g(&c.audit_dropped_algo_output),
        "disabled_ticks_with_strategy_proposal": g(&c.disabled_ticks_with_strategy_proposal),
        "disabled_state_updates_checked": g(&c.disabled_state_updates_checked),
        "disabled_state_updates_changed_state": g(&c.disabled_state_updates_changed_state),
        "enabling_event_generations": g(&c.enabling_event_generations),
        "commands_while_disabled": g(&c.commands_while_disabled),
        "real_channel_ticks": g(&c.real_channel_ticks),
        "probe_event_ticks": g(&c.probe_ticks),
        "disabled_probe_updates_changed_state": g(&c.disabled_probe_updates_changed_state),
        "close_positions_strategy_cancels_checked": g(&c.close_positions_cancels),
        "recoverable_failure_ticks_not_terminal": g(&c.recoverable_only_ticks_checked),
        "commands_under_refusing_risk_manager": g(&c.commands_under_refusing_risk),
        "reopens_of_tracked_cid_reported_sent": g(&c.reopens_of_tracked_cid_sent),
        "position_exit_ticks": g(&c.position_exit_ticks),
        "long_batch_ticks": g(&c.bulk_ticks),
        "roots_with_known_asset_balances": g(&c.funded_roots),
    })
}

/// (exchanges, bound on tracked pool orders, depth, histories start with known asset balances)
fn configs(ctx: &Ctx) -> Vec<(usize, usize, usize, bool)> {
    // (the single-exchange system is the most common deployment: index 0 valid, every other index unknown)
    ctx.tier.pick(
        vec![(2, 2, 4, false), (1, 2, 4, false), (2, 2, 3, true)],
        vec![(2, 2, 6, false), (2, 3, 4, false), (3, 2, 4, false), (1, 2, 6, false), (2, 2, 4, true), (1, 2, 4, true)],
    )
}

pub fn run(ctx: &Ctx) -> Outcome {
    let mut per = Vec::new();
    let (mut states, mut transitions, mut distinct, mut max_depth) = (0usize, 0u64, 0usize, 0usize);
    let mut samples = Vec::new();
    let mut totals: std::collections::BTreeMap<String, u64> = Default::default();
    for (n_ex, k, depth, funded) in configs(ctx) {
        let m = M::new(n_ex, k).funded(funded);
        let label = format!("ex={n_ex},k={k}{}", if funded { ",funded" } else { "" });
        let st = bfs::run(ctx, &m, &label, Some(depth), 20_000_000);
        if st.capped {
            eprintln!("MACHINERY: C03 BFS hit the state cap before depth {depth}");
            std::process::exit(2);
        }
        states += st.states;
        transitions += st.transitions;
        distinct += st.distinct_impl_states;
        max_depth = max_depth.max(st.depth_completed);
        let cj = cov_json(&m.cov);
        if let Value::Object(o) = &cj {
            for (key, v) in o {
                *totals.entry(key.clone()).or_insert(0) += v.as_u64().unwrap_or(0);
            }
        }
        per.push(json!({"label": label, "exchanges": n_ex, "max_tracked_pool_orders": k, "depth": depth, "known_asset_balances": funded,
            "states": st.states, "transitions": st.transitions, "frontier_sizes": st.frontier_sizes,
            "fixpoint": st.fixpoint, "counters": cj}));
        samples.extend(st.samples);
    }
    // non-vacuity: the interesting branches must have been exercised
    // (`requests_reported_failed_recoverable` is not in this list: whether a send failure on a present link is
    // reported as recoverable is the engine's choice - an engine that treats every send failure as fatal never
    // produces one)
    for key in ["requests_reported_sent", "requests_reported_failed_fatal", "requests_reported_refused",
        "disabled_ticks_with_strategy_proposal", "enabling_event_generations", "commands_while_disabled", "disabled_state_updates_changed_state",
        "real_channel_ticks", "probe_event_ticks", "disabled_probe_updates_changed_state", "close_positions_strategy_cancels_checked",
        "commands_under_refusing_risk_manager", "reopens_of_tracked_cid_reported_sent", "position_exit_ticks", "long_batch_ticks"] {
        if totals.get(key).copied().unwrap_or(0) == 0 {
            eprintln!("MACHINERY: C03 exploration never exercised `{key}`");
            std::process::exit(2);
        }
    }
    let mut cov = json!({
        "states": states,
        "transitions": transitions,
        "traces_validated_against_impl": transitions,
        "distinct_impl_states": distinct,
        "max_depth": max_depth,
        "exhaustive": true,
        "per_configuration": per,
        "samples": samples,
        "rule": "BFS over the real EngineState (canonicalised), from fresh states and from states with known asset balances; every transition = one real Engine::process (or direct generate_algo_orders) with strategy output (algo + ClosePositions cancels), risk verdict (per kind / per request; refuse-all next to every command) and per-exchange link fault mode chosen by the explorer, links scripted or real UnboundedTx channels; opens under fresh cids, under a cid tracked on another instrument and under a cid tracked on the same instrument; cancels with and without the exchange's order id; fills that enter and exit positions; probe events (reconnect notices, balance / full account snapshots, cancel responses, L1, 24-request batches by command and by the strategy) judged in every state without successor; oracle R1-R7 on audit (+ is_terminal) + link logs + order state per (instrument, cid)",
    });
    if let Value::Object(o) = &mut cov {
        for (k, v) in totals {
            o.insert(k, json!(v));
        }
    }
    Outcome {
        level: "model_checking",
        coverage: cov,
        assumptions: vec![
            "opens use fresh client order ids, except: ClosePositions (one deterministic id per instrument), the twin open under a cid tracked on another instrument, and the re-open under a cid tracked as open / cancel-in-flight on the same instrument (which an engine may also decline with a reported error)".into(),
            "funded configurations: asset balances are set once (one balance snapshot per asset processed by the real engine before the history) and only probe events touch them afterwards".into(),
            "long batches (24 opens) are probe ticks with healthy links and an approving risk manager".into(),
            "a commanded request may stay unissued only when the audit reports it as refused (the shipped engine bypasses the risk manager for commands)".into(),
            "histories bounded by depth; at most 2-3 simultaneously tracked strategy/command orders; 1-3 exchanges, 2-4 instruments".into(),
            "client order ids are unique per instrument only: the same cid may be tracked on two instruments (never cancelled and re-opened in one tick)".into(),
            "probe events (reconnect notices, balance snapshot, full account snapshot, cancel response, market L1) are executed in every reached state with healthy links and a reduced strategy menu, and have no successor; whether the strategy is consulted on a reconnect notice while enabled is not demanded".into(),
            "real-channel ticks (UnboundedTx) cover SendOpenRequests / SendCancelRequests commands, the enabling event and direct generate_algo_orders calls; that link type has no recoverable send error".into(),
            "a history ends at the first terminal tick (unrecoverable error or Shutdown)".into(),
            "the strategy never cancels the order that the same tick's order snapshot addresses (that outcome is C01's subject)".into(),
            "whether algo generation runs after a command / Shutdown / on enabled events other than the enabling one is not demanded (statement silent); the event that disables trading is judged as a disabled tick unless the strategy was consulted only while trading was still enabled".into(),
            "the error class of a failure on a present (unhealthy or healthy) link is the engine's choice; only 'link gone / absent / unknown exchange => unrecoverable' is demanded".into(),
            "CancelOrders / ClosePositions: scope semantics are C19's; while disabled the command must do what it does on the same state with trading enabled".into(),
        ],
    }
}

pub fn replay(ctx: &Ctx, case: &Value) {
    let label = case["label"].as_str().unwrap_or("ex=2,k=2");
    let mut n_ex = 2;
    let mut k = 2;
    for p in label.split(',') {
        if let Some(v) = p.strip_prefix("ex=") {
            n_ex = v.parse().unwrap_or(2);
        }
        if let Some(v) = p.strip_prefix("k=") {
            k = v.parse().unwrap_or(2);
        }
    }
    let m = M::new(n_ex, k).funded(label.split(',').any(|p| p == "funded"));
    for (sig, detail) in bfs::replay(&m, case) {
        ctx.violate(sig, detail, case.clone());
    }
}
