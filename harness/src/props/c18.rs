//! C18 — Reported drawdowns are the peak-to-trough declines of the value curve.
//!
//! E-SEQ: every timed value sequence of length <= d over values {-1,0,1,2,3,4} x gaps {1 ms, 1 s} (pass
//! "curve") and x gaps {0, 1 s} (pass "ties"; gap 0 = a further point at the SAME instant: times are
//! non-decreasing, the points of a curve are its sequence) whose first value is positive (=> every running maximum is positive, as the statement requires;
//! later values may be zero or negative like a PnL curve) is fed point by point to the REAL
//!   (a) `DrawdownGenerator` (started with `default()` and, separately, with `init(first point)`), its
//!       returned drawdowns being fed to the real `MaxDrawdownGenerator` / `MeanDrawdownGenerator`;
//!   (b) `AssetState::update_from_balance` -> `TearSheetAssetGenerator` (equity curve = balance total);
//!   (c) `TearSheetGenerator::update_from_position` (curve = cumulative realised PnL);
//! and after EVERY point the observations are compared with an independent, declarative decomposition
//! of the curve (record highs -> episodes), written from the statement:
//!
//!  R1 "each completed drawdown reported is the largest relative decline from one running maximum
//!      before the next point that exceeds it, starting at that maximum's time and ending at the
//!      recovery time": `update` returns Some exactly at a point that exceeds the running maximum when
//!      some earlier point of that episode lay below the maximum; value == (peak-min)/peak (1e-24),
//!      time_start == time the running maximum was set, time_end == time of the exceeding point.
//!      Reporting at a point that does not exceed the maximum (e.g. a recovery exactly *to* the peak),
//!      reporting a zero decline, or not reporting a completed decline are violations.
//!  R2 "while a decline from the latest maximum is in progress it is reported as the current
//!      drawdown": `generate()` is Some((peak-min)/peak, start = peak time) iff some point since the
//!      latest maximum lay below it (the end time of an unfinished drawdown is not specified by the
//!      statement and is not checked).
//!  R3 "The maximum drawdown is the largest of the drawdowns reported": the max generator holds one of
//!      the reported drawdowns whose depth is maximal (any one on ties), None iff nothing was reported.
//!  R4 "the mean drawdown is their average in depth and duration": depth mean within 1e-20; duration
//!      mean (an integer number of ms) within k ms for k reported drawdowns.
//!  R3/R4 are evaluated against the drawdowns that were ACTUALLY reported (the statement's words), R1/R2
//!  against the decomposition. For the two tear sheets a single `generate` is made on a clone after
//!  every point; their current drawdown must be the curve's current drawdown (as observed on the raw
//!  generator, which R2 ties to the decomposition) and "the drawdowns reported" are the completed ones
//!  plus the current one the sheet shows. This layering keeps a defect of the generator itself under
//!  "C18/generator/..." only; "C18/asset-tear-sheet/..." and "C18/pnl-tear-sheet/..." then point at the
//!  wiring of the sheets (wrong value fed, current drawdown not folded into max/mean, ...).
//!
//! Further code paths to the same observations, each judged by the same rules under its own tag:
//!  * `generator-polled`: a generator whose `generate()` is called IN PLACE after every point (reporting the
//!    current drawdown must not disturb what is reported later);
//!  * `mean-max-init-start`: Mean/Max generators started with `init(first reported drawdown)`;
//!  * `asset-tear-sheet-init`: an `AssetState` whose sheet is started with `TearSheetAssetGenerator::init(first
//!    balance)` (how the engine state is built) - the first balance is the first point of the curve.
//! The asset's FREE balance moves differently from its total (the equity curve is the total); a closed
//! position's entry time lies before its exit time (cumulative realised PnL changes at the exit).
//! Passes `scaled-*` run the curves multiplied by 0.00000001 and by 1234567.891 (relative declines are the same).
//! Pass `fine` (second hardening round): the curve (1 000 000 000 + v) x 0.000000001000000000123 - every value has 21
//! decimals and every decline is a few 1e-9 of its peak (a decline is a decline however small relative to the peak;
//! values are not multiples of 1e-8). Pass `long-gaps`: the points are 1 day / 40 days apart (durations beyond
//! 2^31 ms). Pass `zigzag`: dip / new maximum alternate (alphabet chosen from the history), so that a curve of
//! 13 (17) points reports 6 (8) drawdowns - max and mean over more than a handful of drawdowns.

use super::common::*;
use crate::core::{Ctx, Outcome, hash_of};
use crate::explore::seq::{self, SeqModel, Viol};
use barter::{
    Timed,
    engine::state::{asset::AssetState, position::PositionExited},
    statistic::{
        metric::drawdown::{
            Drawdown, DrawdownGenerator,
            max::{MaxDrawdown, MaxDrawdownGenerator},
            mean::{MeanDrawdown, MeanDrawdownGenerator},
        },
        summary::{asset::TearSheetAssetGenerator, instrument::TearSheetGenerator},
        time::Daily,
    },
};
use barter_execution::{
    balance::{AssetBalance, Balance},
    trade::AssetFees,
};
use barter_instrument::{
    Side,
    asset::{Asset, AssetIndex, QuoteAsset},
    instrument::InstrumentIndex,
};
use barter_integration::snapshot::Snapshot;
use chrono::{DateTime, Utc};
use rust_decimal::Decimal;
use serde::{Deserialize, Serialize};
use serde_json::{Value, json};

const VALUES: [i64; 6] = [1, 2, 3, 4, 0, -1];
const GAPS_MS: [i64; 2] = [1, 1000];
/// pass "ties": gap 0 = a further point at the SAME instant as the previous one
const TIE_GAPS_MS: [i64; 2] = [0, 1000];
/// pass "fine": value = (FINE_OFFSET + v) x FINE_FACTOR - 21 decimals, declines of a few 1e-9 of the peak
const FINE_OFFSET: i64 = 1_000_000_000;
const FINE_FACTOR: &str = "0.000000001000000000123";
/// pass "long-gaps": 1 day / 40 days between points (40 days > 2^31 ms)
const LONG_GAPS_MS: [i64; 2] = [86_400_000, 3_456_000_000];
/// a closed position is held for this long: its entry time differs from the time its PnL is realised
const HOLD_MS: i64 = 7;
/// pass 2 ("deep"): one more level, a single gap, longer curves
const DEEP_VALUES: [i64; 7] = [1, 2, 3, 4, 5, 0, -1];

/// One point of the curve: value and time gap (ms) since the previous point.
#[derive(Debug, Clone, Copy, PartialEq, Eq, Hash, Serialize, Deserialize)]
pub struct P {
    pub v: i64,
    pub gap_ms: i64,
}

#[derive(Clone)]
pub struct St {
    t_ms: i64,
    last_v: i64,
    /// an R1/R2 violation of the raw generator was already reported on this path: the generator's state
    /// has diverged from the curve, so R1/R2 are not re-evaluated further down this path (every path is
    /// explored, so the first manifestation is always reported; later ones would only be echoes).
    /// R3/R4 and the tear-sheet checks are relative to what was actually reported and stay on.
    diverged: bool,
    dd: DrawdownGenerator,
    dd_init: Option<DrawdownGenerator>,
    /// same curve, but `generate()` is called on the generator itself after every point
    dd_polled: DrawdownGenerator,
    polled_diverged: bool,
    /// tear sheets (asset, asset-init, pnl) whose current drawdown was already found not to be the curve's
    sheet_diverged: [bool; 3],
    max: MaxDrawdownGenerator,
    mean: MeanDrawdownGenerator,
    /// Mean/Max generators started with `init(first reported drawdown)` instead of `default()` + `update`
    mean_max_init: Option<(MeanDrawdownGenerator, MaxDrawdownGenerator)>,
    /// every drawdown the raw generator's `update` has returned so far ("the drawdowns reported")
    emitted: Vec<Drawdown>,
    asset: AssetState,
    /// asset state whose tear sheet was started with `TearSheetAssetGenerator::init(first balance)`
    asset_init: Option<AssetState>,
    /// the equity curve of each of the two asset states = the balances it ADMITTED (see `AssetCurve`)
    asset_curve: [AssetCurve; 2],
    ts: TearSheetGenerator,
}

/// The equity curve of an `AssetState` is the sequence of balances it admitted. Which snapshots it admits is its own
/// freshness policy and not part of the statement - with one limit the check keeps: a snapshot STRICTLY newer than the
/// balance held is always a point of the curve. A snapshot carrying the time of the balance already held (or older)
/// may be applied (it is then a further point at the same instant) or ignored (balance AND tear sheet unchanged).
/// `gen` is a real `DrawdownGenerator` fed with exactly the admitted points (equal to the path's raw generator as
/// long as every point was admitted; a curve without some of its same-instant points is itself a curve of the pass,
/// so R1/R2 of that generator are judged on its own path); `emitted` = what its `update` returned.
#[derive(Clone, Default)]
struct AssetCurve {
    gen_: DrawdownGenerator,
    emitted: Vec<Drawdown>,
    last: Option<Balance>,
}
impl AssetCurve {
    /// `held` = the state's balance before the snapshot, `now` = after it. Returns the curve's current drawdown.
    fn observe(&mut self, held: Option<Timed<Balance>>, now: Option<Timed<Balance>>, balance: Balance, t: DateTime<Utc>) -> Option<Drawdown> {
        let applied = now == Some(Timed::new(balance, t));
        let may_be_ignored = held.map(|h| t <= h.time).unwrap_or(false);
        // (a strictly newer snapshot that was not applied stays on the expected curve: the sheet is then reported as
        // not following the curve / not showing the balance, as before)
        if applied || !may_be_ignored {
            if let Some(d) = self.gen_.update(Timed::new(balance.total, t)) {
                self.emitted.push(d);
            }
            self.last = Some(balance);
        }
        self.gen_.clone().generate()
    }
}

/// Expected drawdown: depth = num/den exactly (den = the positive peak), with its times.
#[derive(Debug, Clone, PartialEq)]
struct Exp {
    num: i64,
    den: i64,
    start: DateTime<Utc>,
    end: DateTime<Utc>,
}
impl Exp {
    fn depth(&self) -> Decimal {
        Decimal::from(self.num) / Decimal::from(self.den)
    }
    fn ms(&self) -> i64 {
        (self.end - self.start).num_milliseconds()
    }
}

/// Declarative decomposition of a curve (statement R1/R2): record highs split the curve into episodes.
/// Returns (completed drawdowns with the index of the point that completed them, in-progress one).
fn decompose(pts: &[(i64, DateTime<Utc>)]) -> (Vec<(usize, Exp)>, Option<Exp>) {
    // indices of running maxima: points strictly above everything before them
    let records: Vec<usize> =
        (0..pts.len()).filter(|&i| pts[..i].iter().all(|(v, _)| *v < pts[i].0)).collect();
    let mut completed = Vec::new();
    let mut current = None;
    for (k, &r) in records.iter().enumerate() {
        let peak = pts[r].0;
        let end = records.get(k + 1).copied();
        let inside = &pts[r + 1..end.unwrap_or(pts.len())];
        let min = inside.iter().map(|(v, _)| *v).min();
        let Some(min) = min else { continue };
        if min >= peak {
            continue; // no point below the maximum: no decline
        }
        match end {
            Some(e) => completed.push((e, Exp { num: peak - min, den: peak, start: pts[r].1, end: pts[e].1 })),
            None => current = Some(Exp { num: peak - min, den: peak, start: pts[r].1, end: pts[pts.len() - 1].1 }),
        }
    }
    (completed, current)
}

fn close(a: Decimal, b: Decimal, tol: Decimal) -> bool {
    (a - b).abs() <= tol
}
fn tol24() -> Decimal {
    Decimal::new(1, 24)
}
fn tol20() -> Decimal {
    Decimal::new(1, 20)
}

/// R1 for one `update` return value.
fn check_emission(
    tag: &str,
    got: &Option<Drawdown>,
    want: Option<&Exp>,
    exceeds_peak: bool,
    out: &mut Vec<Viol>,
    ctxt: &dyn Fn() -> String,
) {
    match (got, want) {
        (None, None) => {}
        (None, Some(w)) => out.push((
            format!("C18/{tag}/completed/not-reported"),
            format!("update returned None at the recovery point, expected {w:?}; {}", ctxt()),
        )),
        (Some(g), None) => {
            let why = if !exceeds_peak {
                "reported-at-point-not-exceeding-the-maximum"
            } else {
                "zero-decline-reported"
            };
            out.push((format!("C18/{tag}/completed/{why}"), format!("update returned {g:?}, expected None; {}", ctxt())));
        }
        (Some(g), Some(w)) => {
            if !close(g.value, w.depth(), tol24()) {
                out.push((
                    format!("C18/{tag}/completed/depth"),
                    format!("depth {} expected {}/{}; {}", g.value, w.num, w.den, ctxt()),
                ));
            }
            if g.time_start != w.start {
                out.push((
                    format!("C18/{tag}/completed/time-start"),
                    format!("time_start {} expected {} (time of the running maximum); {}", g.time_start, w.start, ctxt()),
                ));
            }
            if g.time_end != w.end {
                out.push((
                    format!("C18/{tag}/completed/time-end"),
                    format!("time_end {} expected {} (time of the exceeding point); {}", g.time_end, w.end, ctxt()),
                ));
            }
        }
    }
}

/// R2 for one `generate()` value.
fn check_current(tag: &str, got: &Option<Drawdown>, want: Option<&Exp>, out: &mut Vec<Viol>, ctxt: &dyn Fn() -> String) {
    match (got, want) {
        (None, None) => {}
        (None, Some(w)) => out.push((
            format!("C18/{tag}/current/not-reported"),
            format!("no current drawdown, expected {w:?}; {}", ctxt()),
        )),
        (Some(g), None) => out.push((
            format!("C18/{tag}/current/reported-without-decline"),
            format!("current drawdown {g:?} but no point since the latest maximum lies below it; {}", ctxt()),
        )),
        (Some(g), Some(w)) => {
            if !close(g.value, w.depth(), tol24()) {
                out.push((
                    format!("C18/{tag}/current/depth"),
                    format!("depth {} expected {}/{}; {}", g.value, w.num, w.den, ctxt()),
                ));
            }
            if g.time_start != w.start {
                out.push((
                    format!("C18/{tag}/current/time-start"),
                    format!("time_start {} expected {}; {}", g.time_start, w.start, ctxt()),
                ));
            }
        }
    }
}

/// R3 + R4 against the set of drawdowns that were actually reported.
fn check_max_mean(
    tag: &str,
    reported: &[Drawdown],
    got_max: &Option<MaxDrawdown>,
    got_mean: &Option<MeanDrawdown>,
    out: &mut Vec<Viol>,
    ctxt: &dyn Fn() -> String,
) {
    if reported.is_empty() {
        if let Some(m) = got_max {
            out.push((format!("C18/{tag}/max/present-without-drawdowns"), format!("max={m:?}; {}", ctxt())));
        }
        if let Some(m) = got_mean {
            out.push((format!("C18/{tag}/mean/present-without-drawdowns"), format!("mean={m:?}; {}", ctxt())));
        }
        return;
    }
    let best = reported.iter().map(|r| r.value).max().unwrap();
    match got_max {
        None => out.push((format!("C18/{tag}/max/missing"), format!("no max drawdown, reported={reported:?}; {}", ctxt()))),
        Some(MaxDrawdown(g)) => {
            if !close(g.value, best, tol24()) {
                out.push((
                    format!("C18/{tag}/max/not-the-largest"),
                    format!("max depth {} but the largest reported is {best}; reported={reported:?}; {}", g.value, ctxt()),
                ));
            } else if !reported.iter().any(|r| close(r.value, g.value, tol24()) && r.time_start == g.time_start && r.time_end == g.time_end) {
                // any of the deepest ones is accepted on ties, but it must be one of them
                out.push((
                    format!("C18/{tag}/max/not-a-reported-drawdown"),
                    format!("max {g:?} has the largest depth but is none of the reported drawdowns {reported:?}; {}", ctxt()),
                ));
            }
        }
    }
    let k = reported.len() as i64;
    let depth_mean = reported.iter().map(|r| r.value).sum::<Decimal>() / Decimal::from(k);
    // (the duration of a drawdown is computed here from its start and end time, not with the code under test's `Drawdown::duration`)
    let ms_sum: i64 = reported.iter().map(|r| (r.time_end - r.time_start).num_milliseconds()).sum();
    match got_mean {
        None => out.push((format!("C18/{tag}/mean/missing"), format!("no mean drawdown, reported={reported:?}; {}", ctxt()))),
        Some(g) => {
            if !close(g.mean_drawdown, depth_mean, tol20()) {
                out.push((
                    format!("C18/{tag}/mean/depth"),
                    format!("mean depth {} expected {depth_mean}; reported={reported:?}; {}", g.mean_drawdown, ctxt()),
                ));
            }
            // |got - sum/k| <= k ms  <=>  |got*k - sum| <= k*k
            if (g.mean_drawdown_ms * k - ms_sum).abs() > k * k {
                out.push((
                    format!("C18/{tag}/mean/duration"),
                    format!("mean duration {} ms expected {}/{k} ms (+-{k}); reported={reported:?}; {}", g.mean_drawdown_ms, ms_sum, ctxt()),
                ));
            }
        }
    }
}

/// A tear sheet is fed the same curve as the raw generator: its current drawdown must be the raw
/// generator's, and its max/mean must be those of (drawdowns the raw generator completed) + (the
/// current one the sheet itself reports). Returns true when the sheet's current drawdown is not the curve's
/// (the sheet has diverged from the curve; every path is explored, so the first manifestation is reported). Checking against the raw generator's *observations* keeps
/// a defect of the generator itself out of the tear-sheet signatures (it is reported once, under
/// "generator/..."), so these signatures point at the wiring of the tear sheet.
fn check_sheet(
    tag: &str,
    emitted: &[Drawdown],
    gen_current: &Option<Drawdown>,
    sheet_current: &Option<Drawdown>,
    sheet_max: &Option<MaxDrawdown>,
    sheet_mean: &Option<MeanDrawdown>,
    out: &mut Vec<Viol>,
    ctxt: &dyn Fn() -> String,
) -> bool {
    let same = match (gen_current, sheet_current) {
        (None, None) => true,
        (Some(a), Some(b)) => close(a.value, b.value, tol24()) && a.time_start == b.time_start,
        _ => false,
    };
    if !same {
        out.push((
            format!("C18/{tag}/current/not-the-curve's-current-drawdown"),
            format!("sheet reports {sheet_current:?}, the curve's current drawdown is {gen_current:?}; {}", ctxt()),
        ));
        // the sheet follows another curve: its max / mean (now and further down this path) would only repeat
        // that under six more names - the caller stops judging this sheet on this path
        return true;
    }
    let mut reported = emitted.to_vec();
    reported.extend(sheet_current.iter().cloned());
    check_max_mean(tag, &reported, sheet_max, sheet_mean, out, ctxt);
    false
}

pub struct M {
    values: Vec<i64>,
    gaps: Vec<i64>,
    /// every curve value is `(offset + v) * factor` (factor > 0): relative declines do not depend on the factor
    factor: Decimal,
    /// added to every symbol value before scaling (0 in all passes but `fine`, where it makes the declines tiny
    /// relative to the peak)
    offset: i64,
    /// pass "zigzag": the alphabet depends on the history - after a running maximum m only dips {m-1, 0}, after a
    /// dip only the new maximum m+1 (gaps 1 ms / 1 s): every second point completes a drawdown, so a curve of 2k+1
    /// points reports k drawdowns of different depths and durations
    zigzag: bool,
}

/// The balance reported at point `i` of the curve: the equity is the TOTAL; the free part moves on its own
/// (total/2 minus a growing locked amount), so its peaks and troughs are not those of the total.
fn balance_of(total: Decimal, i: usize) -> Balance {
    Balance::new(total, total / Decimal::TWO - Decimal::from(i as i64))
}

fn points(hist: &[P], last: Option<&P>, offset: i64) -> Vec<(i64, DateTime<Utc>)> {
    let mut t = 0i64;
    hist.iter()
        .chain(last)
        .map(|p| {
            t += p.gap_ms;
            (p.v + offset, t_plus_ms(t))
        })
        .collect()
}

fn position(pnl: Decimal, t: DateTime<Utc>) -> PositionExited<QuoteAsset, InstrumentIndex> {
    PositionExited {
        instrument: InstrumentIndex(0),
        side: Side::Buy,
        price_entry_average: Decimal::from(100),
        quantity_abs_max: Decimal::ONE,
        pnl_realised: pnl,
        fees_enter: AssetFees::quote_fees(Decimal::ZERO),
        fees_exit: AssetFees::quote_fees(Decimal::ZERO),
        time_enter: t - chrono::TimeDelta::milliseconds(HOLD_MS),
        time_exit: t,
        trades: vec![],
    }
}

impl SeqModel for M {
    type State = St;
    type Sym = P;

    fn init(&self) -> St {
        St {
            t_ms: 0,
            last_v: -self.offset, // the first position realises the whole first value of the curve
            diverged: false,
            dd: DrawdownGenerator::default(),
            dd_init: None,
            dd_polled: DrawdownGenerator::default(),
            polled_diverged: false,
            sheet_diverged: [false; 3],
            max: MaxDrawdownGenerator::default(),
            mean: MeanDrawdownGenerator::default(),
            mean_max_init: None,
            emitted: Vec::new(),
            asset: AssetState::new(Asset::new("usdt", "USDT"), TearSheetAssetGenerator::default(), None),
            asset_init: None,
            asset_curve: Default::default(),
            ts: TearSheetGenerator::init(t0()),
        }
    }

    fn alphabet(&self, _s: &St, hist: &[P]) -> Vec<P> {
        if self.zigzag {
            // running maximum so far (the curve starts at 2)
            let Some(m) = hist.iter().map(|p| p.v).max() else { return vec![P { v: 2, gap_ms: 1000 }] };
            return if hist.last().map(|p| p.v) == Some(m) {
                vec![P { v: m - 1, gap_ms: 1000 }, P { v: 0, gap_ms: 1000 }]
            } else {
                self.gaps.iter().map(|&g| P { v: m + 1, gap_ms: g }).collect()
            };
        }
        let mut v = Vec::new();
        for &x in &self.values {
            // the statement quantifies over curves with positive running maxima: first value > 0
            if hist.is_empty() && x + self.offset <= 0 {
                continue;
            }
            for &g in &self.gaps {
                v.push(P { v: x, gap_ms: g });
            }
        }
        v
    }

    fn step(&self, s: &mut St, p: &P, hist: &[P], out: &mut Vec<Viol>) {
        let pts = points(hist, Some(p), self.offset);
        let i = pts.len() - 1;
        let (t, val) = (pts[i].1, Decimal::from(pts[i].0) * self.factor);
        let exceeds_peak = i > 0 && pts[..i].iter().all(|(v, _)| *v < pts[i].0);
        let ctxt = || format!("curve(value x {}, ms)={:?}", self.factor, pts.iter().map(|(v, t)| (*v, (*t - t0()).num_milliseconds())).collect::<Vec<_>>());

        // ---- reference decomposition of the whole curve so far
        let (completed, current) = decompose(&pts);
        let want_now: Option<&Exp> = completed.iter().find(|(at, _)| *at == i).map(|(_, e)| e);

        // ---- (a) raw generators, real code
        let got = s.dd.update(Timed::new(val, t));
        let before = out.len();
        if !s.diverged {
            check_emission("generator", &got, want_now, exceeds_peak, out, &ctxt);
        }
        if let Some(d) = &got {
            s.mean.update(d);
            s.max.update(d);
            s.emitted.push(d.clone());
            match &mut s.mean_max_init {
                None => s.mean_max_init = Some((MeanDrawdownGenerator::init(d.clone()), MaxDrawdownGenerator::init(d.clone()))),
                Some((mean, max)) => {
                    mean.update(d);
                    max.update(d);
                }
            }
        }
        let gen_current = s.dd.clone().generate();
        if !s.diverged && out.len() == before {
            check_current("generator", &gen_current, current.as_ref(), out, &ctxt);
        }
        s.diverged |= out.len() > before;
        // R3/R4: max / mean of the drawdowns `update` has actually reported so far
        check_max_mean("generator", &s.emitted, &s.max.generate(), &s.mean.generate(), out, &ctxt);
        if let Some((mean, max)) = &s.mean_max_init {
            check_max_mean("mean-max-init-start", &s.emitted, &max.generate(), &mean.generate(), out, &ctxt);
        }

        // generator whose current drawdown is read in place after every point: R1/R2 all the same
        let got_p = s.dd_polled.update(Timed::new(val, t));
        let before_p = out.len();
        if !s.polled_diverged && !s.diverged {
            check_emission("generator-polled", &got_p, want_now, exceeds_peak, out, &ctxt);
        }
        let cur_p = s.dd_polled.generate();
        if !s.polled_diverged && !s.diverged && out.len() == before_p {
            check_current("generator-polled", &cur_p, current.as_ref(), out, &ctxt);
        }
        s.polled_diverged |= out.len() > before_p;

        // same generator started through `init(first point)`: must behave like the default start
        match &mut s.dd_init {
            None => s.dd_init = Some(DrawdownGenerator::init(Timed::new(val, t))),
            Some(g) => {
                let got2 = g.update(Timed::new(val, t));
                let cur2 = g.clone().generate();
                if got2 != got || cur2 != gen_current {
                    out.push((
                        "C18/generator-init/differs-from-default-start".into(),
                        format!("init-started generator: update={got2:?} current={cur2:?}; default-started: update={got:?} current={gen_current:?}; {}", ctxt()),
                    ));
                }
            }
        }

        // ---- (b) asset tear sheet through the real producer AssetState::update_from_balance. The sheet is judged
        // against the asset's own equity curve = the balances the state admitted (`AssetCurve`)
        let balance = balance_of(val, i);
        let held = s.asset.balance;
        s.asset.update_from_balance(Snapshot(&AssetBalance { asset: AssetIndex(0), balance, time_exchange: t }));
        let curve_current = s.asset_curve[0].observe(held, s.asset.balance, balance, t);
        let sheet = s.asset.statistics.clone().generate();
        if !s.sheet_diverged[0] {
            s.sheet_diverged[0] = check_sheet("asset-tear-sheet", &s.asset_curve[0].emitted, &curve_current, &sheet.drawdown, &sheet.drawdown_max, &sheet.drawdown_mean, out, &ctxt);
        }
        if sheet.balance_end != s.asset_curve[0].last {
            out.push(("C18/asset-tear-sheet/balance-end".into(), format!("balance_end={:?}; {}", sheet.balance_end, ctxt())));
        }
        // the same through an asset state built around its first balance (TearSheetAssetGenerator::init)
        let held = s.asset_init.as_ref().and_then(|a| a.balance);
        match &mut s.asset_init {
            None => {
                let first = Timed::new(balance, t);
                s.asset_init = Some(AssetState::new(Asset::new("usdt", "USDT"), TearSheetAssetGenerator::init(&first), Some(first)));
            }
            Some(a) => a.update_from_balance(Snapshot(&AssetBalance { asset: AssetIndex(0), balance, time_exchange: t })),
        }
        let curve_current = s.asset_curve[1].observe(held, s.asset_init.as_ref().unwrap().balance, balance, t);
        let sheet = s.asset_init.as_ref().unwrap().statistics.clone().generate();
        if !s.sheet_diverged[1] {
            s.sheet_diverged[1] = check_sheet("asset-tear-sheet-init", &s.asset_curve[1].emitted, &curve_current, &sheet.drawdown, &sheet.drawdown_max, &sheet.drawdown_mean, out, &ctxt);
        }
        if sheet.balance_end != s.asset_curve[1].last {
            out.push(("C18/asset-tear-sheet-init/balance-end".into(), format!("balance_end={:?}; {}", sheet.balance_end, ctxt())));
        }

        // ---- (c) instrument tear sheet: curve = cumulative realised PnL of closed positions
        s.ts.update_from_position(&position(Decimal::from(p.v - s.last_v) * self.factor, t));
        let sheet = s.ts.clone().generate(Decimal::ZERO, Daily);
        if !s.sheet_diverged[2] {
            s.sheet_diverged[2] = check_sheet("pnl-tear-sheet", &s.emitted, &gen_current, &sheet.pnl_drawdown, &sheet.pnl_drawdown_max, &sheet.pnl_drawdown_mean, out, &ctxt);
        }

        s.t_ms += p.gap_ms;
        s.last_v = p.v;
    }

    fn final_hash(&self, s: &St) -> u64 {
        hash_of(&(
            (s.dd.peak, s.dd.drawdown_max, s.dd.time_peak, s.dd.time_now),
            s.mean.count,
            s.mean.mean_drawdown.as_ref().map(|m| (m.mean_drawdown, m.mean_drawdown_ms)),
            s.max.max.as_ref().map(|m| (m.0.value, m.0.time_start, m.0.time_end)),
            (s.ts.pnl_drawdown.peak, s.ts.pnl_drawdown.drawdown_max, s.ts.pnl_drawdown_mean.count),
            (s.asset.statistics.drawdown.peak, s.asset.statistics.drawdown_mean.count),
        ))
    }
}

/// The passes by label (also used by `replay`).
fn model(label: &str) -> M {
    let f = |x: &str| <Decimal as std::str::FromStr>::from_str(x).unwrap();
    match label {
        "ties" => M { values: VALUES.to_vec(), gaps: TIE_GAPS_MS.to_vec(), factor: Decimal::ONE, offset: 0, zigzag: false },
        "deep" => M { values: DEEP_VALUES.to_vec(), gaps: vec![1000], factor: Decimal::ONE, offset: 0, zigzag: false },
        "scaled-small" => M { values: VALUES.to_vec(), gaps: vec![1000], factor: f("0.00000001"), offset: 0, zigzag: false },
        "scaled-large" => M { values: VALUES.to_vec(), gaps: vec![1000], factor: f("1234567.891"), offset: 0, zigzag: false },
        "fine" => M { values: VALUES.to_vec(), gaps: vec![1000], factor: f(FINE_FACTOR), offset: FINE_OFFSET, zigzag: false },
        "long-gaps" => M { values: VALUES.to_vec(), gaps: LONG_GAPS_MS.to_vec(), factor: Decimal::ONE, offset: 0, zigzag: false },
        "zigzag" => M { values: vec![], gaps: GAPS_MS.to_vec(), factor: Decimal::ONE, offset: 0, zigzag: true },
        _ => M { values: VALUES.to_vec(), gaps: GAPS_MS.to_vec(), factor: Decimal::ONE, offset: 0, zigzag: false },
    }
}

pub fn run(ctx: &Ctx) -> Outcome {
    // pass "curve": two gaps (durations vary); pass "ties": gaps 0 / 1 s (several points at one instant); pass
    // "deep": one more value level, single gap, longer curves; passes "scaled-*": the curve times 1e-8 /
    // 1234567.891, single gap; pass "fine": values with 21 decimals whose declines are ~1e-9 of the peak; pass
    // "long-gaps": points 1 day / 40 days apart
    let max_len = ctx.tier.pick(5, 7);
    let ties_len = ctx.tier.pick(5, 6);
    let deep_len = ctx.tier.pick(7, 8);
    let scaled_len = ctx.tier.pick(5, 7);
    let long_len = ctx.tier.pick(4, 6);
    // 2k+1 points = k completed drawdowns: 6 quick, 8 thorough
    let zigzag_len = ctx.tier.pick(13, 17);
    let passes = [("curve", max_len), ("ties", ties_len), ("deep", deep_len), ("scaled-small", scaled_len), ("scaled-large", scaled_len), ("fine", scaled_len), ("long-gaps", long_len), ("zigzag", zigzag_len)];
    let mut per_pass = Vec::new();
    let (mut sequences, mut steps, mut distinct) = (0u64, 0u64, 0usize);
    for (label, len) in passes {
        let t = std::time::Instant::now();
        let st = seq::run(ctx, &model(label), label, len);
        eprintln!("C18 pass {label}: {} sequences {:.1}s", st.sequences, t.elapsed().as_secs_f64());
        sequences += st.sequences;
        steps += st.steps;
        distinct += st.distinct_final;
        per_pass.push(json!({"pass": label, "max_len": len, "sequences": st.sequences, "evaluations": st.steps, "distinct_final": st.distinct_final}));
    }
    Outcome {
        level: "exploration",
        coverage: json!({
            "evaluations": steps,
            "sequences": sequences,
            "distinct_nontrivial": distinct,
            "exhaustive": true,
            "max_len": max_len,
            "ties_max_len": ties_len,
            "deep_max_len": deep_len,
            "scaled_max_len": scaled_len,
            "deep_values": DEEP_VALUES,
            "per_pass": per_pass,
            "values": VALUES,
            "gaps_ms": GAPS_MS,
            "ties_gaps_ms": TIE_GAPS_MS,
            "scale_factors": ["1", "0.00000001", "1234567.891"],
            "fine_pass": {"value": format!("({FINE_OFFSET} + v) x {FINE_FACTOR}"), "max_len": scaled_len},
            "long_gaps_ms": LONG_GAPS_MS,
            "long_gaps_max_len": long_len,
            "zigzag_max_len": zigzag_len,
            "zigzag_drawdowns_reported": (zigzag_len - 1) / 2,
            "rule": "every timed curve of <= max_len points (first value > 0, non-decreasing times) fed to the real DrawdownGenerator (default start, init start, and one polled with generate() in place) + Max/Mean generators (default and init start), AssetState::update_from_balance -> TearSheetAssetGenerator (default start and init(first balance); free balance != total) and TearSheetGenerator::update_from_position (entry time != exit time); after every point: update()'s return, generate(), max, mean and the tear sheets compared with the record-high decomposition of the curve",
            "samples": [
                {"seq": [{"v":2,"gap_ms":1},{"v":1,"gap_ms":1000},{"v":2,"gap_ms":1},{"v":3,"gap_ms":1000}], "note": "recovery exactly to the peak does not end the drawdown; it ends at 3"},
                {"seq": [{"v":1,"gap_ms":1},{"v":2,"gap_ms":1},{"v":3,"gap_ms":1}], "note": "monotone: nothing reported"},
                {"seq": [{"v":3,"gap_ms":1},{"v":-1,"gap_ms":1000},{"v":4,"gap_ms":1}], "note": "PnL-like curve below zero: depth 4/3"},
                {"label": "ties", "seq": [{"v":3,"gap_ms":0},{"v":1,"gap_ms":0},{"v":4,"gap_ms":1000}], "note": "the dip is a second point at the instant of the peak: drawdown 2/3 from that instant to 1 s later"},
            ],
        }),
        assumptions: vec![
            "curves have a positive first value (hence positive running maxima) and non-decreasing times; later values may be <= 0".into(),
            "a decline is a decline however small relative to its peak (pass fine: ~1e-9) and whatever the number of decimals of the values; durations up to months (pass long-gaps)".into(),
            "a curve is its SEQUENCE of points: a point at the same instant as the previous one is a further point for the generators and the PnL sheet. The equity curve of an AssetState is the sequence of balances it admitted: a snapshot strictly newer than the balance held must be admitted; one carrying the same instant may be applied or ignored (balance and tear sheet together)".into(),
            "the end time of an unfinished (current) drawdown is not specified by the statement and is not checked".into(),
            "a point equal to the running maximum does not set a new maximum ('the next point that exceeds it')".into(),
            "mean duration is an integer number of ms: tolerance k ms for k drawdowns; depth tolerance 1e-24 (mean 1e-20)".into(),
            "tear sheets are generated once, on a clone, after each point (generating twice on the same generator is outside the statement); the raw generator's generate() may be called at any time".into(),
            "the equity curve of an asset is its TOTAL balance; the cumulative realised PnL of an instrument changes at a position's exit time".into(),
        ],
    }
}

pub fn replay(ctx: &Ctx, case: &Value) {
    let m = model(case["label"].as_str().unwrap_or("curve"));
    for (sig, detail) in seq::replay(&m, case) {
        ctx.violate(sig, detail, case.clone());
    }
}
