//! C19 — Cancel-orders and close-positions commands act on exactly the filtered scope.
//!
//! Exhaustive configuration sweep (E-SEQ style, prefix sharing): engine state x filter x command
//! sequence, every command executed by the real `Engine::process(EngineEvent::Command(..))` with
//! recording execution links.
//!
//! * World: 4 instruments, 2 exchanges, 3 underlyings: exchange 0 lists `a` btc/usdt, `b` btc/usdt (same
//!   underlying twice), `c` btc/usd (same base, other quote); exchange 1 lists `d` btc/usdt (same
//!   names, other exchange => other asset indices => another underlying).
//! * Engine states are REACHED by feeding events to a real engine (trading disabled, healthy links):
//!   `SendOpenRequests` (in flight), order snapshots (open / partially filled), `SendCancelRequests`
//!   (cancel in flight with / without confirmed open data), account trades (long 2 = buy 3, sell 1;
//!   short 3 = sell 4, buy 1 - so `quantity_abs != quantity_abs_max`), market trades (price known).
//!   Per instrument: orders = any subset of {in-flight, open, partially-filled, cancel-in-flight(Some),
//!   cancel-in-flight(None)} x position {none, long 2, short 3} x price {unknown, known}.
//! * Filters: `None`; every subset of exchanges, of instruments, of the three underlyings (also the
//!   empty subset, single elements both as `One` and as `Many`), plus decoys that match nothing
//!   (unknown exchange / instrument index, every ordered pair of asset indices that is not an
//!   underlying: swapped base/quote, base of one exchange with quote of the other, ...).
//! * Commands: `CancelOrders(f)`, `ClosePositions(f)`, each followed by `CancelOrders(f)`,
//!   `ClosePositions(f)` or `CancelOrders(None)` (repetition while the first is in flight).
//!
//! Oracle (reference model built from the configuration menu - definition level, never from the
//! engine's own filter code):
//!  * `CancelOrders(f)`  => the requests found in the link logs are exactly: one cancel per tracked order
//!    of a matching instrument that is not already cancelling, on the link of that instrument's
//!    exchange, carrying the client order id and `id == Some(exchange id)` iff the reference knows one;
//!  * `ClosePositions(f)` => exactly one open per matching instrument with position and price, on that
//!    instrument's link, opposite side, `quantity == |position|`; nothing for position-less,
//!    price-less or non-matching instruments; no cancels;
//!  * whole `InstrumentState` of every non-matching instrument is bit-identical before / after;
//!  * a repeated cancel requests nothing that is already cancel-in-flight (the reference marks what
//!    the first command requested, independently of what the engine recorded).
//!
//! Further dimensions (hardening rounds):
//!  * position `long 0.500000000001` (buy 1.500000000001, sell 1): a fractional quantity, `quantity == |position|` exactly;
//!  * filters that name the same exchange / instrument / underlying twice ("exactly one" request per order /
//!    per instrument is a statement about instruments, not about filter entries);
//!  * the trading state is part of "any engine state": every first command also with trading ENABLED
//!    (the scripted algo strategy generates nothing, so every delivery is the command's);
//!  * the execution links are environment, the statement does not condition on their health: every first
//!    command also with one (or both) link(s) failing. A request that could not be sent is not "in flight":
//!    with a RECOVERABLE fault (unhealthy link) the requests for instruments on healthy links are still
//!    demanded exactly, and a follow-up cancel on healed links must request exactly the orders whose first
//!    request was not sent and none of those that were. With an UNRECOVERABLE fault (closed / missing link -
//!    the engine is about to shut down) only the "nothing wrong is requested" rules are kept (no
//!    completeness, no follow-up).
//!  * (second hardening round) client order ids shared between instruments; a second world with THREE exchanges
//!    (all exchange subsets, plain / trading enabled / System handle); every first
//!    command also issued through the user-facing `System::cancel_orders / close_positions` handle; long inputs:
//!    one instrument tracking up to 1100 (4200) orders, worlds of 1..=64 (200) instruments; close-positions answered
//!    by the library's own `DefaultStrategy`; every first command also while all market / account streams report
//!    `Reconnecting`, and with a risk manager that refuses everything (there only wrong requests are flagged: the
//!    statement does not say whether commands bypass the risk manager); filters built through the public constructors
//!    `InstrumentFilter::exchanges(..)` etc.

//!
//! Soundness round (false alarms removed; the benign changes are in `out/benign/C19_ok_*.patch`):
//!  * risk manager refusing everything: only wrong requests are flagged (the statement does not say whether commands
//!    bypass the risk manager);
//!  * filters naming a NON-EXISTENT exchange / instrument index are outside the quantifier ("every subset of exchanges, of
//!    instruments"): only wrong requests are flagged, a panic is not judged (`W::names_unknown_index`);
//!  * the scripted close-positions strategy (`CStrategy`) never reuses the client order id of an order the instrument
//!    still tracks (the default strategy's random ids do not collide either): a repeated close-positions command used to
//!    collide with its own first closing order.

use super::c03::{fresh_state, mk_engine};
use super::common::*;
use crate::core::{Ctx, Distinct, Outcome, Samples, hash_of};
use barter::{
    EngineEvent,
    engine::{
        Engine, Processor,
        command::Command,
        execution_tx::MultiExchangeTxMap,
        state::{
            instrument::{data::InstrumentDataState, filter::InstrumentFilter},
            trading::TradingState,
        },
    },
    execution::{AccountStreamEvent, request::ExecutionRequest},
    strategy::{
        DefaultStrategy,
        algo::AlgoStrategy,
        close_positions::{ClosePositionsStrategy, close_open_positions_with_market_orders},
        on_disconnect::OnDisconnectStrategy,
        on_trading_disabled::OnTradingDisabled,
    },
};
use barter_data::{
    event::{DataKind, MarketEvent},
    streams::consumer::MarketStreamEvent,
    subscription::trade::PublicTrade,
};
use barter_execution::{
    AccountEvent, AccountEventKind,
    order::{
        Order, OrderKey, OrderKind, TimeInForce,
        id::{ClientOrderId, OrderId},
        request::{OrderRequestCancel, OrderRequestOpen, RequestCancel, RequestOpen},
        state::{ActiveOrderState, Open, OrderState},
    },
    trade::{AssetFees, Trade, TradeId},
};
use barter_instrument::{
    Side, Underlying,
    asset::AssetIndex,
    exchange::{ExchangeId, ExchangeIndex},
    index::IndexedInstruments,
    instrument::InstrumentIndex,
};
use barter_integration::{collection::one_or_many::OneOrMany, snapshot::Snapshot};
use rayon::prelude::*;
use rust_decimal::Decimal;
use serde::{Deserialize, Serialize};
use serde_json::{Value, json};
use std::{
    collections::BTreeMap,
    panic::{AssertUnwindSafe, catch_unwind},
    sync::atomic::{AtomicU64, Ordering},
};

type Viol = (String, String);

/// per-instrument configuration: order-kind bit mask, position (0 none, 1 long 2, 2 short 3, 3 long 0.500000000001), price known
#[derive(Debug, Clone, Copy, PartialEq, Eq, Hash, Serialize, Deserialize)]
pub struct IC {
    orders: u8,
    pos: u8,
    price: bool,
}
const KINDS: [&str; 5] = ["nf", "op", "pf", "cs", "cn"]; // in-flight, open, partially filled, cancelling(Some), cancelling(None)

/// filter specification; the bool forces `OneOrMany::Many` even for one element
#[derive(Debug, Clone, PartialEq, Eq, Hash, Serialize, Deserialize)]
pub enum FSpec {
    None,
    Ex(Vec<usize>, bool),
    Ins(Vec<usize>, bool),
    Und(Vec<(usize, usize)>, bool),
}
impl FSpec {
    fn kind(&self) -> &'static str {
        match self {
            FSpec::None => "filter-none",
            FSpec::Ex(..) => "by-exchange",
            FSpec::Ins(..) => "by-instrument",
            FSpec::Und(..) => "by-underlying",
        }
    }
}

#[derive(Debug, Clone, Copy, PartialEq, Eq, Hash, Serialize, Deserialize)]
pub enum Cmd {
    /// CancelOrders(filter)
    Cancel,
    /// ClosePositions(filter)
    Close,
    /// CancelOrders(InstrumentFilter::None)
    CancelAll,
}

/// state of one execution link while a command is processed
#[derive(Debug, Clone, Copy, PartialEq, Eq, Hash, Serialize, Deserialize)]
pub enum Link {
    Healthy,
    /// recoverable send error
    Unhealthy,
    /// receiver dropped: unrecoverable send error
    Closed,
    /// exchange tracked without execution link: unrecoverable lookup error
    Missing,
}
impl Link {
    fn mode(self) -> Option<TxMode> {
        match self {
            Link::Healthy => Some(TxMode::Healthy),
            Link::Unhealthy => Some(TxMode::Unhealthy),
            Link::Closed => Some(TxMode::Closed),
            Link::Missing => None,
        }
    }
}
/// one slot per exchange of the largest world (three); worlds with two exchanges ignore the third slot
const HEALTHY: [Link; 3] = [Link::Healthy, Link::Healthy, Link::Healthy];
/// link states with recoverable faults only: completeness on the healthy links and follow-ups are judged
const RECOVERABLE: [[Link; 3]; 3] = [[Link::Unhealthy, Link::Healthy, Link::Healthy], [Link::Healthy, Link::Unhealthy, Link::Healthy], [Link::Unhealthy, Link::Unhealthy, Link::Healthy]];
/// link states with an unrecoverable fault (also: an exchange WITHOUT link placed before a linked one)
const UNRECOVERABLE: [[Link; 3]; 4] = [[Link::Missing, Link::Healthy, Link::Healthy], [Link::Healthy, Link::Missing, Link::Healthy], [Link::Closed, Link::Healthy, Link::Healthy], [Link::Healthy, Link::Closed, Link::Healthy]];

/// environment of one command evaluation
#[derive(Debug, Clone, Copy, PartialEq, Eq, Hash)]
pub struct Env {
    links: [Link; 3],
    trading_enabled: bool,
    /// this command follows a cancel command some of whose requests could not be sent
    after_failed_send: bool,
    /// the command is issued through the user-facing handle `System::cancel_orders / close_positions`
    /// (barter/src/system/mod.rs) and whatever arrives on the engine feed is processed
    via_system: bool,
    /// the engine runs the library's own `DefaultStrategy` (barter/src/strategy/mod.rs) - "the default
    /// strategy" of the statement - instead of the scripted strategy that calls
    /// `close_open_positions_with_market_orders` itself. Its client order ids are random: they are never
    /// compared, and these evaluations do not enter the distinct-outcome count.
    default_strategy: bool,
    /// connectivity is part of "any engine state": just before the command the market stream AND the account
    /// stream of every exchange report `Reconnecting` (the state-reaching events had made the streams of the
    /// exchanges they touched healthy)
    reconnecting: bool,
    /// the configured risk manager refuses every request it is shown. The statement is silent on whether user
    /// commands are shown to the risk manager: whatever IS requested must still be right (scope, side, quantity,
    /// ids, no duplicates, outside-filter instruments untouched), but nothing has to be requested
    risk_refuses: bool,
}
const PLAIN: Env = Env { links: HEALTHY, trading_enabled: false, after_failed_send: false, via_system: false, default_strategy: false, reconnecting: false, risk_refuses: false };

fn one_or_many<T>(mut v: Vec<T>, many: bool) -> OneOrMany<T> {
    if v.len() == 1 && !many { OneOrMany::One(v.pop().unwrap()) } else { OneOrMany::Many(v) }
}

pub struct W {
    /// name of the world, part of every recorded case
    name: String,
    instruments: IndexedInstruments,
    n_ins: usize,
    n_ex: usize,
    ex_of: Vec<usize>,
    und_of: Vec<(usize, usize)>,
    /// the distinct underlyings, in order of first appearance
    real_unds: Vec<(usize, usize)>,
    n_assets: usize,
}

impl W {
    fn of(name: &str, instruments: IndexedInstruments) -> Self {
        let ex_of: Vec<usize> = instruments.instruments().iter().map(|i| i.value.exchange.key.index()).collect();
        let und_of: Vec<(usize, usize)> = instruments
            .instruments()
            .iter()
            .map(|i| (i.value.underlying.base.index(), i.value.underlying.quote.index()))
            .collect();
        let mut real_unds = Vec::new();
        for u in &und_of {
            if !real_unds.contains(u) {
                real_unds.push(*u);
            }
        }
        Self { name: name.into(), n_ins: ex_of.len(), n_ex: instruments.exchanges().len(), n_assets: instruments.assets().len(), instruments, ex_of, und_of, real_unds }
    }

    /// the main world: 4 instruments, 2 exchanges, 3 underlyings
    pub fn new() -> Self {
        let w = Self::of(
            "main",
            IndexedInstruments::builder()
                .add_instrument(spot(EXCHANGES[0], "a", "A", "btc", "usdt"))
                .add_instrument(spot(EXCHANGES[0], "b", "B", "btc", "usdt"))
                .add_instrument(spot(EXCHANGES[0], "c", "C", "btc", "usd"))
                .add_instrument(spot(EXCHANGES[1], "d", "D", "btc", "usdt"))
                .build(),
        );
        assert_eq!(w.ex_of, vec![0, 0, 0, 1], "instrument layout");
        assert_eq!(w.und_of[0], w.und_of[1]);
        assert!(w.und_of[0] != w.und_of[2] && w.und_of[0].0 == w.und_of[2].0 && w.und_of[0] != w.und_of[3]);
        assert_eq!(w.real_unds, vec![w.und_of[0], w.und_of[2], w.und_of[3]]);
        w
    }

    /// THREE exchanges (exchange 0 lists instruments 0 and 1, exchange 1 instrument 2, exchange 2 instrument 3;
    /// `IndexedInstruments` sorts instruments by exchange): an exchange filter naming exchanges 0 and 2 must
    /// leave the exchange between them alone
    pub fn three() -> Self {
        let w = Self::of(
            "three-exchanges",
            IndexedInstruments::builder()
                .add_instrument(spot(EXCHANGES[0], "a", "A", "btc", "usdt"))
                .add_instrument(spot(EXCHANGES[1], "b", "B", "btc", "usdt"))
                .add_instrument(spot(EXCHANGES[0], "c", "C", "eth", "usdt"))
                .add_instrument(spot(EXCHANGES[2], "d", "D", "btc", "usdt"))
                .build(),
        );
        assert_eq!(w.ex_of, vec![0, 0, 1, 2], "instrument layout");
        assert_eq!(w.real_unds.len(), 4);
        w
    }

    /// k instruments over two exchanges (named so that they alternate; the index sorts them by exchange), all
    /// btc/usdt (the long-input layer)
    pub fn wide(k: usize) -> Self {
        let mut b = IndexedInstruments::builder();
        for j in 0..k {
            b = b.add_instrument(spot(EXCHANGES[j % 2], &format!("i{j}"), &format!("I{j}"), "btc", "usdt"));
        }
        let w = Self::of(&format!("wide-{k}"), b.build());
        assert!(w.ex_of.iter().all(|e| *e < 2), "instrument layout");
        w
    }

    fn by_name(name: &str) -> Self {
        match name {
            "three-exchanges" => Self::three(),
            n if n.starts_with("wide-") => Self::wide(n[5..].parse().expect("replay: world")),
            _ => Self::new(),
        }
    }

    fn filter(&self, f: &FSpec) -> InstrumentFilter {
        match f {
            FSpec::None => InstrumentFilter::None,
            // `many == false`: through the public constructors (`InstrumentFilter::exchanges(..)` etc., what a user
            // writes), `many == true`: the variant written out with `OneOrMany::Many`
            FSpec::Ex(v, false) => InstrumentFilter::exchanges(v.iter().map(|e| ExchangeIndex(*e))),
            FSpec::Ins(v, false) => InstrumentFilter::instruments(v.iter().map(|i| InstrumentIndex(*i))),
            FSpec::Und(v, false) => InstrumentFilter::underlyings(v.iter().map(|(b, q)| Underlying { base: AssetIndex(*b), quote: AssetIndex(*q) })),
            FSpec::Ex(v, m) => InstrumentFilter::Exchanges(one_or_many(v.iter().map(|e| ExchangeIndex(*e)).collect(), *m)),
            FSpec::Ins(v, m) => InstrumentFilter::Instruments(one_or_many(v.iter().map(|i| InstrumentIndex(*i)).collect(), *m)),
            FSpec::Und(v, m) => InstrumentFilter::Underlyings(one_or_many(
                v.iter().map(|(b, q)| Underlying { base: AssetIndex(*b), quote: AssetIndex(*q) }).collect(),
                *m,
            )),
        }
    }

    /// definition-level predicate: does instrument `i` fall in the scope of `f`?
    fn matches(&self, f: &FSpec, i: usize) -> bool {
        match f {
            FSpec::None => true,
            FSpec::Ex(v, _) => v.contains(&self.ex_of[i]),
            FSpec::Ins(v, _) => v.contains(&i),
            FSpec::Und(v, _) => v.contains(&self.und_of[i]),
        }
    }

    /// does the filter name an exchange / instrument index that does not exist in this engine? The statement
    /// quantifies over subsets of the EXISTING exchanges / instruments: what an engine does with such a filter
    /// (ignore the unknown entry, refuse the whole command, panic like every other lookup by index) is not fixed.
    fn names_unknown_index(&self, f: &FSpec) -> bool {
        match f {
            FSpec::Ex(v, _) => v.iter().any(|e| *e >= self.n_ex),
            FSpec::Ins(v, _) => v.iter().any(|i| *i >= self.n_ins),
            _ => false,
        }
    }

    /// all filters of the sweep
    fn filters(&self) -> Vec<FSpec> {
        let mut v = vec![FSpec::None];
        let subsets = |n: usize| -> Vec<Vec<usize>> {
            (1u32..(1 << n)).map(|m| (0..n).filter(|i| m & (1 << i) != 0).collect()).collect()
        };
        // exchanges
        for s in subsets(self.n_ex) {
            v.push(FSpec::Ex(s, false));
        }
        v.push(FSpec::Ex(vec![0], true));
        v.push(FSpec::Ex(vec![1], true));
        v.push(FSpec::Ex(vec![], true));
        v.push(FSpec::Ex(vec![self.n_ex], false)); // unknown exchange index
        v.push(FSpec::Ex(vec![3, 1], false)); // unknown (== an instrument index) + real
        // instruments
        for s in subsets(self.n_ins) {
            v.push(FSpec::Ins(s, false));
        }
        v.push(FSpec::Ins(vec![1], true));
        v.push(FSpec::Ins(vec![], true));
        v.push(FSpec::Ins(vec![7], false));
        v.push(FSpec::Ins(vec![3, 0], false));
        // underlyings: the real ones, all subsets
        let real = self.real_unds.clone();
        for s in subsets(real.len()) {
            v.push(FSpec::Und(s.iter().map(|k| real[*k]).collect(), false));
        }
        v.push(FSpec::Und(vec![real[2]], true));
        if self.n_ex > 2 {
            // a third exchange: the missing subsets' duplicates / orders
            v.push(FSpec::Ex(vec![2, 0], false));
            v.push(FSpec::Ex(vec![2, 2, 0], false));
        }
        v.push(FSpec::Und(vec![], true));
        // decoys: every ordered pair of asset indices that is no underlying
        for b in 0..self.n_assets {
            for q in 0..self.n_assets {
                if b != q && !real.contains(&(b, q)) {
                    v.push(FSpec::Und(vec![(b, q)], false));
                }
            }
        }
        v.push(FSpec::Und(vec![(real[0].1, real[0].0), real[1]], false)); // swapped decoy + real
        // the same element named twice (a filter is a set of scopes; "exactly one" is per order / instrument)
        v.push(FSpec::Ex(vec![0, 0], false));
        v.push(FSpec::Ex(vec![1, 0, 1], false));
        v.push(FSpec::Ins(vec![1, 1], false));
        v.push(FSpec::Ins(vec![3, 0, 3, 0], false));
        v.push(FSpec::Und(vec![real[0], real[0]], false));
        v.push(FSpec::Und(vec![real[2], real[1], real[2]], false));
        v
    }
}

// ------------------------------------------------------------------------------------------------
// reference model
// ------------------------------------------------------------------------------------------------

#[derive(Debug, Clone, PartialEq, Eq, Hash)]
enum RS {
    InFlight,
    Open(String),
    Cancelling,
}
#[derive(Debug, Clone, PartialEq, Eq, Hash)]
struct RefIns {
    orders: BTreeMap<String, RS>,
    pos: Option<(bool /*long*/, Decimal)>,
    price: bool,
}

/// client order id of the order of kind `name` on instrument i: instruments 0 and 2 use the same ids, and
/// so do 1 and 3 (client order ids are unique per instrument, not globally: an order is instrument + id)
fn cid_of(i: usize, name: &str) -> String {
    format!("{}{name}", i % 2)
}

fn ref_of(cfg: &[IC]) -> Vec<RefIns> {
    cfg.iter()
        .enumerate()
        .map(|(i, c)| {
            let mut orders = BTreeMap::new();
            for (k, name) in KINDS.iter().enumerate() {
                if c.orders & (1 << k) != 0 {
                    let cid = cid_of(i, name);
                    let st = match k {
                        0 => RS::InFlight,
                        1 | 2 => RS::Open(format!("x-{cid}")),
                        _ => RS::Cancelling,
                    };
                    orders.insert(cid, st);
                }
            }
            let pos = match c.pos {
                1 => Some((true, Decimal::from(2))),
                2 => Some((false, Decimal::from(3))),
                3 => Some((true, Decimal::new(500_000_000_001, 12))),
                _ => None,
            };
            RefIns { orders, pos, price: c.price }
        })
        .collect()
}

// ------------------------------------------------------------------------------------------------
// driving the real engine
// ------------------------------------------------------------------------------------------------

fn key(w: &W, i: usize, cid: &str) -> OrderKey<ExchangeIndex, InstrumentIndex> {
    OrderKey { exchange: ExchangeIndex(w.ex_of[i]), instrument: InstrumentIndex(i), strategy: strategy_id(), cid: ClientOrderId::new(cid) }
}
const GTC: TimeInForce = TimeInForce::GoodUntilCancelled { post_only: false };

/// side and time in force of the tracked order with this client order id (by the kind suffix of the id): the
/// scope of a cancel command does not depend on the terms of an order
fn terms_of(cid: &str) -> (Side, TimeInForce) {
    if cid.ends_with("op") {
        (Side::Sell, TimeInForce::GoodUntilCancelled { post_only: true })
    } else if cid.ends_with("pf") {
        (Side::Buy, TimeInForce::GoodUntilEndOfDay)
    } else if cid.ends_with("cs") {
        (Side::Sell, TimeInForce::GoodUntilEndOfDay)
    } else {
        (Side::Buy, GTC)
    }
}

fn ev_open(w: &W, i: usize, cid: &str) -> Event {
    let (side, time_in_force) = terms_of(cid);
    EngineEvent::Command(Command::SendOpenRequests(OneOrMany::One(OrderRequestOpen {
        key: key(w, i, cid),
        state: RequestOpen { side, price: Decimal::from(100), quantity: Decimal::from(2), kind: OrderKind::Limit, time_in_force },
    })))
}
fn ev_snap_open(w: &W, i: usize, cid: &str, filled: u32) -> Event {
    EngineEvent::Account(AccountStreamEvent::Item(AccountEvent {
        exchange: ExchangeIndex(w.ex_of[i]),
        kind: AccountEventKind::OrderSnapshot(Snapshot(Order {
            key: key(w, i, cid),
            side: terms_of(cid).0,
            price: Decimal::from(100),
            quantity: Decimal::from(2),
            kind: OrderKind::Limit,
            time_in_force: terms_of(cid).1,
            state: OrderState::active(Open { id: OrderId::new(format!("x-{cid}")), time_exchange: t_plus(1), filled_quantity: Decimal::from(filled) }),
        })),
    }))
}
fn ev_cancel(w: &W, i: usize, cid: &str, id: Option<String>) -> Event {
    EngineEvent::Command(Command::SendCancelRequests(OneOrMany::One(OrderRequestCancel {
        key: key(w, i, cid),
        state: RequestCancel { id: id.map(OrderId::new) },
    })))
}
fn ev_trade(w: &W, i: usize, n: u32, side: Side, qty: Decimal) -> Event {
    EngineEvent::Account(AccountStreamEvent::Item(AccountEvent {
        exchange: ExchangeIndex(w.ex_of[i]),
        kind: AccountEventKind::Trade(Trade {
            id: TradeId::new(format!("t{i}-{n}")),
            order_id: OrderId::new("ot"),
            instrument: InstrumentIndex(i),
            strategy: strategy_id(),
            time_exchange: t_plus(n as i64),
            side,
            price: Decimal::from(100),
            quantity: qty,
            fees: AssetFees::quote_fees(Decimal::ZERO),
        }),
    }))
}
fn ev_market(w: &W, i: usize) -> Event {
    EngineEvent::Market(MarketStreamEvent::Item(MarketEvent {
        time_exchange: t_plus(1),
        time_received: t_plus(1),
        exchange: w.instruments.exchanges()[w.ex_of[i]].value,
        instrument: InstrumentIndex(i),
        kind: DataKind::Trade(PublicTrade { id: "1".into(), price: 100.0 + i as f64, amount: 1.0, side: Side::Buy }),
    }))
}

/// the event script that reaches configuration `cfg`
fn script(w: &W, cfg: &[IC]) -> Vec<Event> {
    let mut evs = Vec::new();
    for (i, c) in cfg.iter().enumerate() {
        for (k, name) in KINDS.iter().enumerate() {
            if c.orders & (1 << k) == 0 {
                continue;
            }
            let cid = cid_of(i, name);
            evs.push(ev_open(w, i, &cid));
            match k {
                1 => evs.push(ev_snap_open(w, i, &cid, 0)),
                2 => evs.push(ev_snap_open(w, i, &cid, 1)),
                3 => {
                    evs.push(ev_snap_open(w, i, &cid, 0));
                    evs.push(ev_cancel(w, i, &cid, Some(format!("x-{cid}"))));
                }
                4 => evs.push(ev_cancel(w, i, &cid, None)),
                _ => {}
            }
        }
        match c.pos {
            1 => {
                evs.push(ev_trade(w, i, 1, Side::Buy, Decimal::from(3)));
                evs.push(ev_trade(w, i, 2, Side::Sell, Decimal::ONE));
            }
            2 => {
                evs.push(ev_trade(w, i, 1, Side::Sell, Decimal::from(4)));
                evs.push(ev_trade(w, i, 2, Side::Buy, Decimal::ONE));
            }
            3 => {
                evs.push(ev_trade(w, i, 1, Side::Buy, Decimal::new(1_500_000_000_001, 12)));
                evs.push(ev_trade(w, i, 2, Side::Sell, Decimal::ONE));
            }
            _ => {}
        }
        if c.price {
            evs.push(ev_market(w, i));
        }
    }
    evs
}

/// Feed the script to a fresh real engine; returns the reached state, or a description of how the
/// reached state differs from the intended configuration (machinery problem, not a verdict).
fn reach(w: &W, cfg: &[IC]) -> Result<EState, String> {
    let healthy = vec![Some(TxMode::Healthy); w.n_ex];
    let (mut engine, _txs) = mk_engine(&w.instruments, fresh_state(&w.instruments, TradingState::Disabled), &healthy, ScriptStrategy::default(), ScriptRisk::default());
    for ev in script(w, cfg) {
        let _ = engine.process(ev);
    }
    let es = engine.state;
    for (i, (c, r)) in cfg.iter().zip(ref_of(cfg)).enumerate() {
        let st = es.instruments.0.get_index(i).unwrap().1;
        if st.orders.0.len() != r.orders.len() {
            return Err(format!("instrument {i}: {} tracked orders, intended {}", st.orders.0.len(), r.orders.len()));
        }
        for (k, name) in KINDS.iter().enumerate() {
            if c.orders & (1 << k) == 0 {
                continue;
            }
            let cid = cid_of(i, name);
            let got = st.orders.0.get(&ClientOrderId::new(cid.as_str())).map(|o| &o.state);
            let ok = match (k, got) {
                (0, Some(ActiveOrderState::OpenInFlight(_))) => true,
                (1, Some(ActiveOrderState::Open(o))) => o.filled_quantity.is_zero() && o.id.0.as_str() == format!("x-{cid}"),
                (2, Some(ActiveOrderState::Open(o))) => o.filled_quantity == Decimal::ONE,
                (3, Some(ActiveOrderState::CancelInFlight(c))) => c.order.is_some(),
                (4, Some(ActiveOrderState::CancelInFlight(c))) => c.order.is_none(),
                _ => false,
            };
            if !ok {
                return Err(format!("instrument {i}: order {cid} is {got:?}"));
            }
        }
        let pos = st.position.current.as_ref().map(|p| (p.side == Side::Buy, p.quantity_abs));
        let want = r.pos;
        if pos != want {
            return Err(format!("instrument {i}: position {pos:?}, intended {want:?}"));
        }
        if st.data.price().is_some() != c.price {
            return Err(format!("instrument {i}: price {:?}, intended known={}", st.data.price(), c.price));
        }
    }
    Ok(es)
}

/// The close-positions strategy of every evaluation that does not run the library's `DefaultStrategy`: the library's
/// `close_open_positions_with_market_orders` (what `DefaultStrategy` calls) with a DETERMINISTIC client order id
/// that - like the random ids of the default strategy - never collides with an order the instrument still tracks:
/// `close-<instrument>-<number of orders tracked on it>` (a repeated close-positions command finds the first closing
/// order in flight, so the number has grown). `common::ScriptStrategy` reuses `close-<instrument>` for every command:
/// an engine / strategy helper that declines to generate or send a request whose client order id is still in use
/// would be blamed for a collision that only the harness' id scheme produces (the statement is about the default
/// strategy, whose ids do not collide).
#[derive(Debug, Clone, Default)]
pub struct CStrategy {
    id: StrategyId2,
}
impl AlgoStrategy for CStrategy {
    type State = EState;
    fn generate_algo_orders(
        &self,
        _: &Self::State,
    ) -> (
        impl IntoIterator<Item = OrderRequestCancel<ExchangeIndex, InstrumentIndex>>,
        impl IntoIterator<Item = OrderRequestOpen<ExchangeIndex, InstrumentIndex>>,
    ) {
        (Vec::new(), Vec::new())
    }
}
impl ClosePositionsStrategy for CStrategy {
    type State = EState;
    fn close_positions_requests<'a>(
        &'a self,
        state: &'a Self::State,
        filter: &'a InstrumentFilter<ExchangeIndex, AssetIndex, InstrumentIndex>,
    ) -> (
        impl IntoIterator<Item = OrderRequestCancel<ExchangeIndex, InstrumentIndex>> + 'a,
        impl IntoIterator<Item = OrderRequestOpen<ExchangeIndex, InstrumentIndex>> + 'a,
    )
    where
        ExchangeIndex: 'a,
        AssetIndex: 'a,
        InstrumentIndex: 'a,
    {
        close_open_positions_with_market_orders(&self.id.0, state, filter, |state| {
            ClientOrderId::new(format!("close-{}-{}", state.key.index(), state.orders.0.len()))
        })
    }
}
impl<C, S, T, R> OnDisconnectStrategy<C, S, T, R> for CStrategy {
    type OnDisconnect = ExchangeId;
    fn on_disconnect(_: &mut Engine<C, S, T, Self, R>, exchange: ExchangeId) -> ExchangeId {
        exchange
    }
}
impl<C, S, T, R> OnTradingDisabled<C, S, T, R> for CStrategy {
    type OnTradingDisabled = u32;
    fn on_trading_disabled(_: &mut Engine<C, S, T, Self, R>) -> u32 {
        0
    }
}
type CEngine = Engine<ScriptClock, EState, STxMap, CStrategy, ScriptRisk>;

/// The user-facing handle: a real `System` value (its tasks are placeholders that never run) whose feed
/// receiver the harness holds. `System::cancel_orders / close_positions` put events on the feed; they are
/// taken off again and handed to the engine under test.
struct SysHandle {
    _rt: tokio::runtime::Runtime,
    system: barter::system::System<SEngine, Event>,
    rx: barter_integration::channel::UnboundedRx<Event>,
}
impl SysHandle {
    fn new() -> Self {
        use barter::{execution::builder::ExecutionHandles, system::{System, SystemAuxillaryHandles}};
        let rt = tokio::runtime::Builder::new_current_thread().build().expect("tokio runtime");
        let ch = barter_integration::channel::Channel::<Event>::new();
        let system = System {
            engine: rt.spawn(std::future::pending()),
            handles: SystemAuxillaryHandles {
                execution: ExecutionHandles { mock_exchanges: vec![], managers: vec![], account_to_engines: vec![] },
                market_to_engine: rt.spawn(std::future::pending()),
                account_to_engine: rt.spawn(std::future::pending()),
            },
            feed_tx: ch.tx,
            audit: None,
        };
        Self { _rt: rt, system, rx: ch.rx }
    }
    /// issue the command through the handle; everything that arrived on the feed, in order
    fn issue(&mut self, close: bool, filter: InstrumentFilter) -> Vec<Event> {
        if close { self.system.close_positions(filter) } else { self.system.cancel_orders(filter) }
        let mut evs = Vec::new();
        while let Ok(ev) = self.rx.rx.try_recv() {
            evs.push(ev);
        }
        evs
    }
}
thread_local! {
    static SYS: std::cell::RefCell<SysHandle> = std::cell::RefCell::new(SysHandle::new());
}

/// Execute one command on the real engine (fresh links in the states `env.links` around the given state, trading
/// enabled first if `env.trading_enabled`); evaluate the oracle against `refm` and advance `refm`. Returns the new engine state and a hash of the deliveries.
fn eval(w: &W, es: &EState, refm: &mut [RefIns], f: &FSpec, cmd: Cmd, env: Env, out: &mut Vec<Viol>) -> Option<(EState, u64)> {
    let all = FSpec::None;
    let f = if cmd == Cmd::CancelAll { &all } else { f };
    let fk = f.kind();
    let out_start = out.len();
    let modes: Vec<Option<TxMode>> = env.links[..w.n_ex.min(3)].iter().map(|l| l.mode()).collect();
    // can a request for instrument i be sent at all? / is completeness demanded for the sendable ones?
    let sendable = |i: usize| env.links[w.ex_of[i].min(2)] == Link::Healthy;
    let faulty = env.links != HEALTHY;
    // The statement does not say whether user commands pass the configured risk manager (it quantifies over engine
    // states, filters and commands, not over risk managers): an engine that shows the commands' requests to the risk
    // manager keeps the statement whenever the risk manager approves. With a risk manager that refuses everything
    // only the "nothing wrong is requested" rules are kept (no completeness), as for an unrecoverable link fault.
    // A filter naming a non-existent exchange / instrument index is outside the statement's quantifier: again only
    // the "nothing wrong is requested" rules are kept, and a panic is not judged.
    let unknown_index = w.names_unknown_index(f);
    let complete = env.links.iter().all(|l| matches!(l, Link::Healthy | Link::Unhealthy)) && !env.risk_refuses && !unknown_index;
    // abstract context of the rule, part of the signature (empty in the plain case: signatures stay stable)
    let tag = if env.after_failed_send {
        "/after-failed-send"
    } else if faulty {
        "/other-link-faulty"
    } else if env.trading_enabled {
        "/trading-enabled"
    } else if env.via_system {
        "/via-system-handle"
    } else if env.default_strategy {
        "/default-strategy"
    } else if env.reconnecting {
        "/streams-reconnecting"
    } else if env.risk_refuses {
        "/risk-manager-refusing"
    } else {
        ""
    };
    let risk = ScriptRisk { refuse_opens: env.risk_refuses, refuse_cancels: env.risk_refuses };
    // one recording link per exchange (as `c03::mk_engine` builds them), around an engine with `CStrategy`
    let txs: Vec<Option<ScriptTx>> = (0..w.n_ex).map(|i| modes.get(i).copied().unwrap_or(Some(TxMode::Healthy)).map(ScriptTx::new)).collect();
    let tx_map = || MultiExchangeTxMap::from_iter(w.instruments.exchanges().iter().zip(&txs).map(|(e, t)| (e.value, t.clone())));
    let mut engine: CEngine = Engine::new(ScriptClock::default(), es.clone(), tx_map(), CStrategy::default(), risk);
    // the same links and state around the library's DefaultStrategy
    let mut engine_default = env.default_strategy.then(|| {
        Engine::new(ScriptClock::default(), es.clone(), tx_map(), DefaultStrategy::<EState>::default(), ScriptRisk::default())
    });
    if env.trading_enabled {
        let _ = engine.process(EngineEvent::TradingStateUpdate(TradingState::Enabled));
    }
    if env.reconnecting {
        for ex in w.instruments.exchanges() {
            let _ = engine.process(EngineEvent::Market(MarketStreamEvent::Reconnecting(ex.value)));
            let _ = engine.process(EngineEvent::Account(AccountStreamEvent::Reconnecting(ex.value)));
        }
    }
    let command = match cmd {
        Cmd::Close => Command::ClosePositions(w.filter(f)),
        _ => Command::CancelOrders(w.filter(f)),
    };
    let cname = if cmd == Cmd::Close { "close-positions" } else { "cancel-orders" };
    let events: Vec<Event> = if env.via_system {
        SYS.with(|s| s.borrow_mut().issue(cmd == Cmd::Close, w.filter(f)))
    } else {
        vec![EngineEvent::Command(command)]
    };
    if catch_unwind(AssertUnwindSafe(|| {
        for ev in events {
            match engine_default.as_mut() {
                Some(e) => {
                    let _ = e.process(ev);
                }
                None => {
                    let _ = engine.process(ev);
                }
            }
        }
    }))
    .is_err()
    {
        if !unknown_index {
            out.push((format!("C19/{cname}/{fk}/panic{tag}"), format!("Engine::process panicked on {cmd:?} {f:?} {env:?}")));
        }
        return None;
    }
    let post = match engine_default {
        Some(e) => e.state,
        None => engine.state,
    };
    // deliveries: (link, request)
    let mut delivered: Vec<(usize, ExecutionRequest)> = Vec::new();
    for (l, t) in txs.iter().enumerate() {
        if let Some(t) = t {
            for r in t.take() {
                delivered.push((l, r));
            }
        }
    }
    let sig = |what: &str| format!("C19/{cname}/{what}{tag}");
    let sigf = |what: &str| format!("C19/{cname}/{fk}/{what}{tag}"); // scope rules name the filter kind
    let h = if env.default_strategy { 0 } else { hash_of(&format!("{delivered:?} {env:?}")) };
    let ctx_txt = if tag.is_empty() { String::new() } else { format!(" [{env:?}]") };
    // scope defects (request outside the filter / matching instrument skipped) are one family: one signature
    let mut scope: Vec<String> = Vec::new();
    let mut outside = vec![false; w.n_ins];

    if cmd == Cmd::Close {
        let mut seen = vec![0usize; w.n_ins];
        for (l, r) in &delivered {
            let ExecutionRequest::Open(o) = r else {
                out.push((sig("unexpected-non-open-request"), format!("{f:?}: delivered {r:?}")));
                continue;
            };
            let i = o.key.instrument.index();
            if i >= w.n_ins {
                out.push((sig("order-for-unknown-instrument"), format!("{f:?}: {r:?}")));
                continue;
            }
            seen[i] += 1;
            let ri = &refm[i];
            if !w.matches(f, i) {
                scope.push(format!("instrument {i} is outside the filter but got {r:?}"));
                outside[i] = true;
            } else if ri.pos.is_none() {
                out.push((sig("order-without-position"), format!("{f:?}: instrument {i} holds no position but got {r:?}")));
            } else if !ri.price {
                out.push((sig("order-without-price"), format!("{f:?}: instrument {i} has no market price but got {r:?}")));
            } else {
                let (long, q) = ri.pos.unwrap();
                let want_side = if long { Side::Sell } else { Side::Buy };
                if o.state.side != want_side {
                    out.push((sig("not-opposite-side"), format!("{f:?}: instrument {i} is {} but the closing order is {:?}", if long { "long" } else { "short" }, o.state.side)));
                }
                if o.state.quantity != q {
                    out.push((sig("wrong-quantity"), format!("{f:?}: instrument {i} holds {q} but the closing order has quantity {}", o.state.quantity)));
                }
                if *l != w.ex_of[i] || o.key.exchange.index() != w.ex_of[i] {
                    out.push((sig("wrong-exchange"), format!("{f:?}: instrument {i} trades on exchange {} but the order names exchange {} and reached link {l}", w.ex_of[i], o.key.exchange.index())));
                }
                if seen[i] > 1 {
                    out.push((sig("more-than-one-order"), format!("{f:?}: instrument {i} got {} closing orders", seen[i])));
                }
            }
            // reference: the closing order is now in flight (a later cancel command must cancel it)
            refm[i].orders.insert(o.key.cid.0.to_string(), RS::InFlight);
        }
        for i in 0..w.n_ins {
            if w.matches(f, i) && refm[i].pos.is_some() && refm[i].price && seen[i] == 0 && sendable(i) && complete {
                scope.push(format!("instrument {i} matches, holds {:?} and has a price, but no closing order was delivered", refm[i].pos));
            }
        }
    } else {
        let mut seen: BTreeMap<(usize, String), usize> = BTreeMap::new();
        for (l, r) in &delivered {
            let ExecutionRequest::Cancel(c) = r else {
                out.push((sig("unexpected-non-cancel-request"), format!("{f:?}: delivered {r:?}")));
                continue;
            };
            let i = c.key.instrument.index();
            let cid = c.key.cid.0.to_string();
            if i >= w.n_ins {
                out.push((sig("cancel-for-unknown-instrument"), format!("{f:?}: {r:?}")));
                continue;
            }
            let n = seen.entry((i, cid.clone())).or_insert(0);
            *n += 1;
            if !w.matches(f, i) {
                scope.push(format!("instrument {i} is outside the filter but got {r:?}"));
                outside[i] = true;
                continue;
            }
            match refm[i].orders.get(&cid) {
                None => out.push((sig("cancel-of-untracked-order"), format!("{f:?}: {r:?} names no tracked order"))),
                Some(RS::Cancelling) => out.push((sig("re-requested-while-cancel-in-flight"), format!("{f:?}: order {cid} on instrument {i} is already being cancelled but got {r:?}"))),
                Some(st) => {
                    let want_id = match st {
                        RS::Open(id) => Some(id.clone()),
                        _ => None,
                    };
                    let got_id = c.state.id.as_ref().map(|x| x.0.to_string());
                    if got_id != want_id {
                        let what = match (&want_id, &got_id) {
                            (Some(_), None) => "exchange-order-id-known-but-missing",
                            (None, Some(_)) => "exchange-order-id-invented",
                            _ => "wrong-exchange-order-id",
                        };
                        out.push((sig(what), format!("{f:?}: order {cid} on instrument {i}: exchange id known as {want_id:?}, request carries {got_id:?}")));
                    }
                    if *l != w.ex_of[i] || c.key.exchange.index() != w.ex_of[i] {
                        out.push((sig("wrong-exchange"), format!("{f:?}: order {cid} lives on exchange {} but the cancel names exchange {} and reached link {l}", w.ex_of[i], c.key.exchange.index())));
                    }
                    if *n > 1 {
                        out.push((sig("duplicate-cancel"), format!("{f:?}: order {cid} on instrument {i} got {n} cancel requests")));
                    }
                }
            }
        }
        for i in 0..w.n_ins {
            // requests for an instrument behind a failing link cannot be sent: its orders are NOT in flight
            // afterwards, the reference leaves them as they are
            if !w.matches(f, i) || !sendable(i) {
                continue;
            }
            if !complete {
                // unrecoverable fault elsewhere: completeness is not demanded; what was requested is in flight
                for (cid, st) in refm[i].orders.iter_mut() {
                    if *st != RS::Cancelling && seen.contains_key(&(i, cid.clone())) {
                        *st = RS::Cancelling;
                    }
                }
                continue;
            }
            // a matching instrument none of whose live orders got a cancel was skipped as a whole (scope defect);
            // otherwise a missing cancel is a per-order defect
            let live: Vec<&String> = refm[i].orders.iter().filter(|(_, st)| **st != RS::Cancelling).map(|(c, _)| c).collect();
            let skipped = !live.is_empty() && live.iter().all(|c| !seen.contains_key(&(i, (*c).clone())));
            if skipped {
                scope.push(format!("instrument {i} matches and tracks live orders {live:?} but none got a cancel request"));
            }
            for (cid, st) in refm[i].orders.iter_mut() {
                if *st == RS::Cancelling {
                    continue;
                }
                if !skipped && !seen.contains_key(&(i, cid.clone())) {
                    let what = if *st == RS::InFlight { "missing-cancel-of-in-flight-order" } else { "missing-cancel-of-open-order" };
                    out.push((sig(what), format!("{f:?}: order {cid} on matching instrument {i} ({st:?}) got no cancel request")));
                }
                // requested now (or should have been): from here on it counts as being cancelled
                *st = RS::Cancelling;
            }
        }
    }
    // instruments outside the filter: untouched, bit for bit
    if let Some(first) = scope.first() {
        out.push((sigf("wrong-scope"), format!("{f:?}: {first} ({} scope deviation(s) in this command)", scope.len())));
    }
    for i in 0..w.n_ins {
        if !w.matches(f, i) && !outside[i] {
            let (a, b) = (es.instruments.0.get_index(i).unwrap().1, post.instruments.0.get_index(i).unwrap().1);
            if a != b {
                let what = if a.orders != b.orders { "orders" } else if a.position != b.position { "position" } else { "other-state" };
                out.push((sigf(&format!("outside-filter-{what}-touched")), format!("{f:?}: instrument {i} is outside the filter but its {what} changed")));
            }
        }
    }
    for v in out[out_start..].iter_mut() {
        v.1.push_str(&ctx_txt);
    }
    Some((post, h))
}

// ------------------------------------------------------------------------------------------------
// sweep
// ------------------------------------------------------------------------------------------------

static UNREACHED: std::sync::Mutex<(u64, Option<String>)> = std::sync::Mutex::new((0, None));

const SECOND: [Cmd; 3] = [Cmd::Cancel, Cmd::Close, Cmd::CancelAll];

fn case_json(w: &W, cfg: &[IC], f: &FSpec, seq: &[Cmd], env: Env) -> Value {
    // `links` / `trading_enabled` / `via_system` describe the environment of the FIRST command; follow-ups run on healthy links
    json!({"engine": "config-sweep", "world": w.name, "cfg": cfg, "filter": f, "seq": seq, "links": env.links[..w.n_ex.min(3)], "trading_enabled": env.trading_enabled, "via_system": env.via_system, "default_strategy": env.default_strategy, "reconnecting": env.reconnecting, "risk_refuses": env.risk_refuses})
}

/// One first command under `env`, then (if it was clean) the follow-ups `seconds` on healthy links.
#[allow(clippy::too_many_arguments)]
fn sweep_first(
    ctx: &Ctx, w: &W, cfg: &[IC], es0: &EState, ref0: &[RefIns], f: &FSpec, first: Cmd, env: Env, seconds: &[Cmd],
    distinct: &mut std::collections::HashSet<u64>,
) -> (u64, bool) {
    let mut n = 1u64;
    let mut r1 = ref0.to_vec();
    let mut out = Vec::new();
    let res = eval(w, es0, &mut r1, f, first, env, &mut out);
    let first_clean = out.is_empty();
    for (sig, detail) in out.drain(..) {
        ctx.violate(sig, detail, case_json(w, cfg, f, &[first], env));
    }
    let Some((es1, h1)) = res else { return (n, false) };
    // after a flagged command reference and engine may disagree: its follow-ups would only cascade
    if !first_clean {
        return (n, false);
    }
    let mut clean = true;
    if !env.default_strategy {
        distinct.insert(h1);
    }
    let env2 = Env { links: HEALTHY, trading_enabled: false, after_failed_send: env.links != HEALTHY, via_system: false, default_strategy: false, reconnecting: false, risk_refuses: false };
    for second in seconds {
        let mut r2 = r1.clone();
        let res2 = eval(w, &es1, &mut r2, f, *second, env2, &mut out);
        n += 1;
        for (sig, detail) in out.drain(..) {
            clean = false;
            ctx.violate(sig, detail, case_json(w, cfg, f, &[first, *second], env));
        }
        if let Some((_, h2)) = res2 {
            if !env.default_strategy {
                distinct.insert(h1 ^ h2.rotate_left(17));
            }
        }
    }
    (n, clean)
}

/// all command sequences for one configuration; returns number of command evaluations
/// `faults`: also the seven link-fault patterns (main world only)
fn sweep_config(ctx: &Ctx, w: &W, filters: &[FSpec], cfg: &[IC], faults: bool, distinct: &mut std::collections::HashSet<u64>, samples: &Samples) -> u64 {
    let es0 = match reach(w, cfg) {
        Ok(es) => es,
        Err(e) => {
            // The configuration is reached by feeding events; if the tree under test no longer reaches
            // it (e.g. a cancel request no longer marks an in-flight order) the configuration is
            // skipped and counted. `run` turns skipped configurations into a machinery failure only
            // if no violation was found in the configurations that were reached.
            let mut g = UNREACHED.lock().unwrap();
            g.0 += 1;
            if g.1.is_none() {
                g.1 = Some(format!("{cfg:?}: {e}"));
            }
            return 0;
        }
    };
    let ref0 = ref_of(cfg);
    let mut n = 0u64;
    // The `System` handle and the `DefaultStrategy` are thin wrappers that do not look at the engine state: in the
    // big main sweep they are driven for every filter on one configuration in eight (chosen by a hash of the
    // configuration: deterministic), in the small worlds on every configuration
    let wrappers = !faults || hash_of(&cfg) % 8 == 0;
    for f in filters {
        for first in [Cmd::Cancel, Cmd::Close] {
            // healthy links, trading disabled: the command, then every follow-up
            let (k, plain_clean) = sweep_first(ctx, w, cfg, &es0, &ref0, f, first, PLAIN, &SECOND, distinct);
            n += k;
            // a defect that already shows in the plain environment would only be repeated (under further
            // signatures) by the environment variants of the same (state, filter, command)
            if !plain_clean {
                continue;
            }
            samples.offer(|| case_json(w, cfg, f, &[first, Cmd::Cancel], PLAIN));
            // healthy links, trading enabled
            n += sweep_first(ctx, w, cfg, &es0, &ref0, f, first, Env { trading_enabled: true, ..PLAIN }, &[], distinct).0;
            // the same command issued through the user-facing `System` handle
            if wrappers {
                n += sweep_first(ctx, w, cfg, &es0, &ref0, f, first, Env { via_system: true, ..PLAIN }, &[], distinct).0;
            }
            // every stream reconnecting when the command arrives
            n += sweep_first(ctx, w, cfg, &es0, &ref0, f, first, Env { reconnecting: true, ..PLAIN }, &[], distinct).0;
            // a risk manager that refuses everything it is shown
            n += sweep_first(ctx, w, cfg, &es0, &ref0, f, first, Env { risk_refuses: true, ..PLAIN }, &[], distinct).0;
            // close-positions answered by the library's DefaultStrategy, then cancel everything (its orders are in flight)
            if first == Cmd::Close && wrappers {
                n += sweep_first(ctx, w, cfg, &es0, &ref0, f, first, Env { default_strategy: true, ..PLAIN }, &[Cmd::CancelAll], distinct).0;
            }
            if !faults {
                continue;
            }
            // recoverable link faults: after a cancel command the follow-up cancels on healed links must request
            // exactly what could not be sent (after a close command the statement does not say whether an
            // unsent closing order is "tracked": no follow-up)
            let follow: &[Cmd] = if first == Cmd::Cancel { &[Cmd::Cancel, Cmd::CancelAll] } else { &[] };
            for links in RECOVERABLE {
                n += sweep_first(ctx, w, cfg, &es0, &ref0, f, first, Env { links, ..PLAIN }, follow, distinct).0;
            }
            // unrecoverable link faults: only "nothing wrong is requested"
            for links in UNRECOVERABLE {
                n += sweep_first(ctx, w, cfg, &es0, &ref0, f, first, Env { links, ..PLAIN }, &[], distinct).0;
            }
        }
    }
    n
}

fn ic(orders: u8, pos: u8, price: bool) -> IC {
    IC { orders, pos, price }
}

/// representative per-instrument menu (quick) / wider menu (thorough)
fn menu(thorough: bool) -> Vec<IC> {
    let mut m = vec![
        ic(0b00000, 0, false), // empty
        ic(0b00011, 1, true),  // in-flight + open, long, price
        ic(0b01100, 2, true),  // partially filled + cancelling(Some), short, price
        ic(0b10000, 1, false), // cancelling(None), long, NO price
        ic(0b00010, 0, true),  // open, no position, price
        ic(0b11111, 2, true),  // everything, short, price
    ];
    if thorough {
        m.extend([
            ic(0b00001, 2, false), // in-flight, short, no price
            ic(0b00100, 0, false), // partially filled only
            ic(0b01000, 1, true),  // cancelling(Some) only, long, price
            ic(0b11000, 0, true),  // both cancelling kinds, price, no position
            ic(0b00111, 1, true),  // all live kinds, long
            ic(0b00000, 2, true),  // no orders, short, price
        ]);
    }
    m
}

fn all_ics() -> Vec<IC> {
    let mut v = Vec::new();
    for orders in 0u8..32 {
        for pos in 0u8..4 {
            for price in [false, true] {
                v.push(ic(orders, pos, price));
            }
        }
    }
    v
}

fn configs(ctx: &Ctx) -> Vec<Vec<IC>> {
    let thorough = ctx.tier == crate::core::Tier::Thorough;
    let m = menu(thorough);
    let mut v: Vec<Vec<IC>> = Vec::new();
    // full product of the menu over the 4 instruments
    for a in &m {
        for b in &m {
            for c in &m {
                for d in &m {
                    v.push(vec![*a, *b, *c, *d]);
                }
            }
        }
    }
    // every one of the 192 per-instrument states on each instrument, the others from a small background
    let bg = if thorough { vec![ic(0, 0, false), ic(0b00011, 1, true), ic(0b11111, 2, true)] } else { vec![ic(0b00011, 1, true)] };
    for pos in 0..4 {
        for x in all_ics() {
            let others = 3;
            let mut idx = vec![0usize; others];
            loop {
                let mut cfg = Vec::with_capacity(4);
                let mut k = 0;
                for p in 0..4 {
                    if p == pos {
                        cfg.push(x);
                    } else {
                        cfg.push(bg[idx[k]]);
                        k += 1;
                    }
                }
                v.push(cfg);
                // odometer
                let mut d = 0;
                loop {
                    if d == others {
                        break;
                    }
                    idx[d] += 1;
                    if idx[d] < bg.len() {
                        break;
                    }
                    idx[d] = 0;
                    d += 1;
                }
                if d == others {
                    break;
                }
            }
        }
    }
    v.sort_by_key(|c| c.iter().map(|i| (i.orders, i.pos, i.price)).collect::<Vec<_>>());
    v.dedup();
    v
}

// ------------------------------------------------------------------------------------------------
// long-input layers: many orders on one instrument, many instruments
// ------------------------------------------------------------------------------------------------

/// every n <= 130, then n around every power of two and of ten up to `max`, and `max` itself
fn long_sizes(max: usize) -> Vec<usize> {
    let mut v: Vec<usize> = (1..=130.min(max)).collect();
    for base in [2usize, 10] {
        let mut p = if base == 2 { 256 } else { 1000 };
        while p <= max + 1 {
            v.extend([p - 1, p, p + 1]);
            p *= base;
        }
    }
    v.push(max);
    v.retain(|k| *k >= 1 && *k <= max);
    v.sort();
    v.dedup();
    v
}

/// Main world, instrument 0 tracks n orders `m0..` (by j mod 4: in flight / open / partially filled / already
/// being cancelled), instrument 3 (other exchange) tracks one order that carries the SAME client order id `m0`.
/// `CancelOrders(Instruments[0])` must request exactly the live ones of the n - whatever n is -, its repetition
/// nothing, and `CancelOrders(None)` after it exactly the one order of instrument 3.
/// Returns the number of command evaluations, or None if the state could not be reached.
fn many_orders(ctx: &Ctx, w: &W, n: usize, distinct: &mut std::collections::HashSet<u64>) -> Option<u64> {
    let healthy = vec![Some(TxMode::Healthy); w.n_ex];
    let (mut engine, _txs) = mk_engine(&w.instruments, fresh_state(&w.instruments, TradingState::Disabled), &healthy, ScriptStrategy::default(), ScriptRisk::default());
    let cid = |j: usize| format!("m{j}");
    let opens: Vec<OrderRequestOpen> = (0..n)
        .map(|j| OrderRequestOpen {
            key: key(w, 0, &cid(j)),
            state: RequestOpen { side: Side::Buy, price: Decimal::from(100), quantity: Decimal::from(2), kind: OrderKind::Limit, time_in_force: GTC },
        })
        .collect();
    let _ = engine.process(EngineEvent::Command(Command::SendOpenRequests(OneOrMany::Many(opens))));
    let _ = engine.process(ev_open(w, 3, "m0"));
    let mut orders = BTreeMap::new();
    let mut cancels = Vec::new();
    for j in 0..n {
        let c = cid(j);
        match j % 4 {
            0 => {
                orders.insert(c, RS::InFlight);
            }
            1 | 2 => {
                let _ = engine.process(ev_snap_open(w, 0, &c, (j % 4 - 1) as u32));
                orders.insert(c.clone(), RS::Open(format!("x-{c}")));
            }
            _ => {
                let _ = engine.process(ev_snap_open(w, 0, &c, 0));
                cancels.push(OrderRequestCancel { key: key(w, 0, &c), state: RequestCancel { id: Some(OrderId::new(format!("x-{c}"))) } });
                orders.insert(c, RS::Cancelling);
            }
        }
    }
    if !cancels.is_empty() {
        let _ = engine.process(EngineEvent::Command(Command::SendCancelRequests(OneOrMany::Many(cancels))));
    }
    let es = engine.state;
    // reached? (number of orders, and which of them are being cancelled)
    let t0 = &es.instruments.0.get_index(0).unwrap().1.orders.0;
    let cancelling = t0.values().filter(|o| matches!(o.state, ActiveOrderState::CancelInFlight(_))).count();
    let open = t0.values().filter(|o| matches!(o.state, ActiveOrderState::Open(_))).count();
    if t0.len() != n || cancelling != n / 4 || open != (n + 2) / 4 + (n + 1) / 4 || es.instruments.0.get_index(3).unwrap().1.orders.0.len() != 1 {
        return None;
    }
    let mut refm: Vec<RefIns> = (0..w.n_ins).map(|_| RefIns { orders: BTreeMap::new(), pos: None, price: false }).collect();
    refm[0].orders = orders;
    refm[3].orders.insert("m0".into(), RS::InFlight);
    let f = FSpec::Ins(vec![0], false);
    let seq = [Cmd::Cancel, Cmd::Cancel, Cmd::CancelAll];
    let mut es = es;
    let mut evals = 0u64;
    for k in 0..seq.len() {
        let mut out = Vec::new();
        let res = eval(w, &es, &mut refm, &f, seq[k], PLAIN, &mut out);
        evals += 1;
        let clean = out.is_empty();
        for (sig, detail) in out {
            ctx.violate(sig, detail, json!({"engine": "many-orders", "n": n, "seq": &seq[..=k]}));
        }
        match res {
            Some((post, h)) if clean => {
                distinct.insert(h ^ (k as u64).rotate_left(40));
                es = post;
            }
            _ => break,
        }
    }
    Some(evals)
}

/// World of k instruments on two exchanges, the per-instrument states cycling through the menu: both commands
/// under filters that select all / one exchange / every other instrument / the one underlying of exchange 0,
/// each followed by the three follow-ups. Returns the number of command evaluations.
fn many_instruments(ctx: &Ctx, k: usize, distinct: &mut std::collections::HashSet<u64>, samples: &Samples) -> u64 {
    let w = W::wide(k);
    let m = menu(false);
    let cfg: Vec<IC> = (0..k).map(|j| m[(j * 5 + 1) % m.len()]).collect();
    let mut filters = vec![FSpec::None, FSpec::Ex(vec![0], false), FSpec::Ex(vec![1], false), FSpec::Ins((0..k).filter(|j| j % 2 == 1).collect(), true), FSpec::Und(vec![w.und_of[0]], false)];
    filters.retain(|f| !matches!(f, FSpec::Ins(v, _) if v.is_empty()));
    // faults = false: plain environment, trading enabled, via the System handle
    sweep_config(ctx, &w, &filters, &cfg, false, distinct, samples)
}

pub fn run(ctx: &Ctx) -> Outcome {
    let w = W::new();
    let filters = w.filters();
    let cfgs = configs(ctx);
    let evaluations = AtomicU64::new(0);
    let distinct = Distinct::default();
    let samples = Samples::new(4);
    cfgs.par_iter().for_each(|cfg| {
        let mut local = std::collections::HashSet::new();
        let n = sweep_config(ctx, &w, &filters, cfg, true, &mut local, &samples);
        evaluations.fetch_add(n, Ordering::Relaxed);
        distinct.merge_local(&local);
    });
    // second world: three exchanges (full product of a 4-entry (quick) / the 6-entry (thorough) per-instrument menu)
    let w3 = W::three();
    let filters3 = w3.filters();
    let m3: Vec<IC> = if ctx.tier == crate::core::Tier::Thorough { menu(false) } else { vec![ic(0, 0, false), ic(0b00011, 1, true), ic(0b10000, 1, false), ic(0b11111, 2, true)] };
    let mut cfgs3: Vec<Vec<IC>> = Vec::new();
    for a in &m3 {
        for b in &m3 {
            for c in &m3 {
                for d in &m3 {
                    cfgs3.push(vec![*a, *b, *c, *d]);
                }
            }
        }
    }
    let evaluations3 = AtomicU64::new(0);
    let samples3 = Samples::new(2);
    cfgs3.par_iter().for_each(|cfg| {
        let mut local = std::collections::HashSet::new();
        let n = sweep_config(ctx, &w3, &filters3, cfg, false, &mut local, &samples3);
        evaluations3.fetch_add(n, Ordering::Relaxed);
        distinct.merge_local(&local);
    });
    // long inputs
    let max_orders = ctx.tier.pick(1100usize, 4200);
    let sizes = long_sizes(max_orders);
    let long_evals = AtomicU64::new(0);
    sizes.par_iter().for_each(|n| {
        let mut local = std::collections::HashSet::new();
        match many_orders(ctx, &w, *n, &mut local) {
            Some(k) => {
                long_evals.fetch_add(k, Ordering::Relaxed);
            }
            None => {
                let mut g = UNREACHED.lock().unwrap();
                g.0 += 1;
                if g.1.is_none() {
                    g.1 = Some(format!("many-orders n={n}"));
                }
            }
        }
        distinct.merge_local(&local);
    });
    let max_instruments = ctx.tier.pick(64usize, 200);
    let wide_evals = AtomicU64::new(0);
    let samples_wide = Samples::new(0);
    (1..=max_instruments).into_par_iter().for_each(|k| {
        let mut local = std::collections::HashSet::new();
        wide_evals.fetch_add(many_instruments(ctx, k, &mut local, &samples_wide), Ordering::Relaxed);
        distinct.merge_local(&local);
    });
    let (unreached, first_unreached) = UNREACHED.lock().unwrap().clone();
    if unreached > 0 && ctx.violations.len() == 0 {
        eprintln!("MACHINERY: C19 could not reach {unreached} configuration(s) and found no violation elsewhere; first: {}", first_unreached.unwrap_or_default());
        std::process::exit(2);
    }
    let dn = distinct.len();
    if dn < 2 {
        eprintln!("MACHINERY: C19 sweep produced {dn} distinct outcomes");
        std::process::exit(2);
    }
    Outcome {
        level: "exploration",
        coverage: json!({
            "evaluations": evaluations.load(Ordering::Relaxed),
            "configurations": cfgs.len(),
            "configurations_not_reached_by_the_setup_events": unreached,
            "filters": filters.len(),
            "command_sequences_per_configuration_and_filter": "34, and 38 on one configuration in eight",
            "command_sequences_breakdown": "healthy links/trading disabled: 2 first x (1 + 3 follow-ups) = 8; trading enabled: 2; all market / account streams reconnecting: 2; risk manager refusing everything: 2; on one configuration in eight: issued through the System handle: 2, close-positions answered by the library's DefaultStrategy + cancel-all: 2; 3 recoverable link-fault patterns x (cancel + 2 follow-ups on healed links, close) = 12; 4 unrecoverable link-fault patterns x 2 = 8",
            "world_three_exchanges": {"configurations": cfgs3.len(), "filters": filters3.len(), "evaluations": evaluations3.load(Ordering::Relaxed), "command_sequences_per_configuration_and_filter": 18,
                "layout": "exchange 0: instruments 0,1; exchange 1: instrument 2; exchange 2: instrument 3; four underlyings", "samples": samples3.take()},
            "long_inputs": {"many_orders_on_one_instrument": {"sizes": sizes.len(), "largest": max_orders, "evaluations": long_evals.load(Ordering::Relaxed),
                    "rule": "instrument 0 tracks n orders (in flight / open / partially filled / already cancelling by j mod 4), instrument 3 one order with the same client order id as one of them: CancelOrders(Instruments[0]), again, CancelOrders(None); every n <= 130 and around powers of two / ten"},
                "many_instruments": {"worlds": max_instruments, "largest": max_instruments, "evaluations": wide_evals.load(Ordering::Relaxed),
                    "rule": "k = 1..=largest instruments on two exchanges, states cycling through the menu; both commands under 5 filters with all follow-ups, trading enabled, via the System handle"}},
            "distinct_nontrivial": dn,
            "exhaustive": true,
            "rule": "for every reached engine state x filter: CancelOrders / ClosePositions, then CancelOrders / ClosePositions / CancelOrders(None) again; deliveries in the link logs == requests the reference model derives from the configuration and the definition-level filter predicate; instruments outside the filter bit-identical; the first command also with trading enabled and under 7 link-fault patterns (recoverable: deliveries on the healthy links exact, follow-up cancels on healed links request exactly what was not sent; unrecoverable: nothing wrong requested)",
            "bounds": {"instruments": 4, "exchanges": 2, "underlyings": 3, "per_instrument_states_total": 256,
                       "menu_size": menu(ctx.tier == crate::core::Tier::Thorough).len()},
            "samples": samples.take(),
        }),
        assumptions: vec![
            "engine states are those reachable by SendOpenRequests / order snapshots / SendCancelRequests / trades / market trades on healthy links with trading disabled".into(),
            "client order ids are unique per instrument, not globally: instruments 0 and 2 (and 1 and 3) track orders with the same id strings; an order is addressed by instrument + client order id".into(),
            "the statement does not say whether user commands pass the configured risk manager: every first command also with a risk manager that refuses every request shown to it, where only wrong requests are flagged (an engine may bypass the risk manager for commands, as the current one does, or obey it)".into(),
            "connectivity is engine state the statement does not condition on: every first command also with all market and account streams reporting Reconnecting".into(),
            "a command issued through System::cancel_orders / close_positions is judged by what the engine does with everything the handle put on the engine feed".into(),
            "4 instruments on 2 exchanges; full product of a per-instrument menu plus all 256 per-instrument states (32 order sets x {none, long 2, short 3, long 0.500000000001} x price known/unknown) on each instrument against a background".into(),
            "a request that could not be sent (failing execution link) is not in flight: the order is still 'not already being cancelled'; with a recoverable fault on one link the requests for the other link are still demanded exactly; with an unrecoverable fault (engine about to shut down) only wrong requests are flagged".into(),
            "a filter that names an element twice has the same scope as the filter naming it once".into(),
            "filters naming an exchange / instrument index that does not exist in the engine are outside the quantifier (subsets of the existing ones): they are still issued, but only wrong requests are flagged (no completeness, a panic is not judged)".into(),
            "the close-positions strategy is close_open_positions_with_market_orders with a deterministic client order id per instrument and number of orders it tracks (never the id of an order still tracked there, like the random ids of the default strategy); in the 'default-strategy' evaluations it is the library's DefaultStrategy (random client order ids, which are not compared)".into(),
            "tracked orders differ in side and time in force by kind (open: sell / post-only, partially filled: good until end of day, ...); the scope of a cancel command does not depend on an order's terms".into(),
            "only side, quantity, instrument and exchange of a closing order are demanded (the statement does not fix kind / price / time in force)".into(),
        ],
    }
}

pub fn replay(ctx: &Ctx, case: &Value) {
    if case["engine"].as_str() == Some("many-orders") {
        let n = case["n"].as_u64().expect("replay: n") as usize;
        let mut local = std::collections::HashSet::new();
        if many_orders(ctx, &W::new(), n, &mut local).is_none() {
            eprintln!("MACHINERY: cannot reach the many-orders state n={n}");
            std::process::exit(2);
        }
        return;
    }
    let w = W::by_name(case["world"].as_str().unwrap_or("main"));
    let cfg: Vec<IC> = serde_json::from_value(case["cfg"].clone()).expect("replay: cfg");
    let f: FSpec = serde_json::from_value(case["filter"].clone()).expect("replay: filter");
    let seq: Vec<Cmd> = serde_json::from_value(case["seq"].clone()).expect("replay: seq");
    // cases recorded before the environment dimensions existed carry neither key: plain environment
    let mut links = HEALTHY;
    for (k, l) in serde_json::from_value::<Vec<Link>>(case["links"].clone()).unwrap_or_default().into_iter().take(3).enumerate() {
        links[k] = l;
    }
    let trading_enabled = case["trading_enabled"].as_bool().unwrap_or(false);
    let via_system = case["via_system"].as_bool().unwrap_or(false);
    let default_strategy = case["default_strategy"].as_bool().unwrap_or(false);
    let reconnecting = case["reconnecting"].as_bool().unwrap_or(false);
    let risk_refuses = case["risk_refuses"].as_bool().unwrap_or(false);
    let mut es = match reach(&w, &cfg) {
        Ok(es) => es,
        Err(e) => {
            eprintln!("MACHINERY: cannot reach configuration: {e}");
            std::process::exit(2);
        }
    };
    let mut refm = ref_of(&cfg);
    for (k, cmd) in seq.iter().enumerate() {
        let env = if k == 0 {
            Env { links, trading_enabled, after_failed_send: false, via_system, default_strategy, reconnecting, risk_refuses }
        } else {
            Env { links: HEALTHY, trading_enabled: false, after_failed_send: links != HEALTHY, via_system: false, default_strategy: false, reconnecting: false, risk_refuses: false }
        };
        let mut out = Vec::new();
        let res = eval(&w, &es, &mut refm, &f, *cmd, env, &mut out);
        println!("replay step {k}: {cmd:?} {f:?} {env:?} -> {} violation(s)", out.len());
        for (sig, detail) in out {
            println!("    {sig}: {detail}");
            ctx.violate(sig, detail, case.clone());
        }
        match res {
            Some((e, _)) if ctx.violations.len() == 0 => es = e,
            _ => break,
        }
    }
}
