//! C06 — Binance L2 streams never leave a silently wrong local book.
//!
//! Engine: E-SEQ. For every configuration (rule set x venue evolution x composition of the evolution
//! into depth updates x REST snapshot point, for two instruments sharing one connection) EVERY delivery
//! sequence of length <= L over the set of depth-update messages of both instruments (plus one message of
//! an un-subscribed market) is fed to the REAL transformer obtained from `ExchangeTransformer::init(map,
//! snapshots, tx)`; the messages and snapshots are the venue's JSON payloads parsed by the real
//! deserialisers; every `Ok` event is applied to a real `OrderBook` of the instrument the event names
//! (the consumer), the connection stops at the first terminal error exactly like
//! `with_termination_on_error`. "Every sequence over the message set" uniformly contains drop, duplicate,
//! swap, replay-old-prefix, start-early and start-late. The transformers are not `Clone`, so each step
//! re-initialises the transformer and re-delivers the history before delivering the next message.
//!
//! Simulated venue: instrument script = K atomic level changes with ids base+1..base+K on top of an initial
//! book (id base); a composition cuts the K changes into consecutive updates [U..u] carrying the absolute
//! amounts (as of u) of the levels touched (futures: pu = u of the previous update); the REST snapshot is the
//! venue book at id S in base..=base+K. Both instruments use the SAME id range so that a shared or confused
//! sequencer is visible. Spot ids are consecutive (the spot rule U = u_prev+1 presupposes it); the futures
//! venue is run with consecutive ids AND with ids that leave holes (stride 2: U = pu+2), because on that venue
//! only `pu` links two updates — this separates "pu = previous u" from "U = previous u + 1".
//! Half of the configurations use ids around 1000, the other half ids on both sides of 2^32 (`base_hi`): the
//! venue's ids are u64 and the rules only compare them, so a narrowed id is visible only across that boundary.
//! One script (3, used by instrument 1) has a change id that touches no level, so that one of its updates is a
//! depth update WITHOUT levels: it continues (or starts) the chain like any other update.
//!
//! Two further layers live in `c06_init.rs` (loopback venue): the real `ExchangeWsStream::init` for the spot and
//! the futures transformer (one instrument, and two instruments on one connection), and the real `init_market_stream` (termination on terminal errors + automatic
//! re-initialisation) around the spot transformer.
//!
//! Oracle = venue-rule monitor written from the statement (per instrument; `pos` = u of the last update the
//! implementation admitted):
//!  R-chain   "the updates admitted into the local book form an unbroken chain under the venue's published
//!            rule": first admitted: spot U <= S+1 <= u, futures U <= S <= u; later: spot U = pos+1, futures pu = pos.
//!  R-book    "the book ... equals the exchange's book as of the sequence number it reports": after every
//!            admitted update (while the chain is intact) local book == venue book at `book.sequence`.
//!  R-break   "any break surfaces as a terminal sequence error": a message beyond the next expected one
//!            (gap) must yield `Err(e)` with `e.is_terminal()`; neither admitted (R-chain) nor silently dropped.
//!  R-inorder "a gap-free in-order delivery, preceded by any number of strictly older messages, never errors":
//!            while the messages delivered for an instrument are (older than the snapshot)* followed by the
//!            consecutive updates starting with the one that covers the snapshot, no output is an `Err`.
//!  R-route   "across several instruments on one connection": an event names the instrument of the message's
//!            market; a message of an un-subscribed market yields no event. Isolation of the per-instrument
//!            chains follows from running one monitor per instrument.
//! Freedom left by the statement and accepted: a stale / duplicate message after the chain has started may be
//! dropped or answered with an error; an error for an unknown market may or may not be terminal; a level-less
//! update that yields no event may have been consumed (chain position advanced) or ignored - the monitor
//! carries both positions (`Mon::cands`) until an output tells them apart; silently dropping a level-less
//! update is never a break (it cannot make the book wrong), admitting one across a gap still is.

use crate::core::{Ctx, Distinct, Outcome, Samples, hash_of};
use crate::explore::seq::{self, SeqModel, Viol};
use barter_data::{
    books::{Level, OrderBook},
    error::DataError,
    event::MarketEvent,
    exchange::binance::{
        book::l2::BinanceOrderBookL2Snapshot,
        futures::l2::{BinanceFuturesOrderBookL2Update, BinanceFuturesUsdOrderBooksL2Transformer},
        spot::l2::{BinanceSpotOrderBookL2Update, BinanceSpotOrderBooksL2Transformer},
    },
    subscription::{Map, book::OrderBookEvent},
    transformer::ExchangeTransformer,
};
use barter_instrument::exchange::ExchangeId;
use barter_integration::{
    Transformer,
    protocol::websocket::{WebSocketParser, WsMessage},
    subscription::SubscriptionId,
};
use rayon::prelude::*;
use rust_decimal::Decimal;
use serde::{Deserialize, Serialize};
use serde_json::{Value, json};
use std::{
    collections::BTreeMap,
    panic::{AssertUnwindSafe, catch_unwind},
    sync::atomic::{AtomicU64, Ordering},
};

type PMap = BTreeMap<Decimal, Decimal>;
type Key = u32;
type Out = Vec<Result<MarketEvent<Key, OrderBookEvent>, DataError>>;

// ------------------------------------------------------------------------------------------------
// Configuration and simulated venue
// ------------------------------------------------------------------------------------------------

#[derive(Clone, Copy, Debug, PartialEq, Eq, Serialize, Deserialize)]
pub struct InstCfg {
    pub script: u8, // which evolution script
    pub k: u8,      // number of atomic changes used
    pub cuts: u8,   // bit i set => an update ends after change i+1 (the last change always ends one)
    pub snap: u8,   // REST snapshot taken after `snap` changes (0..=k)
}

#[derive(Clone, Copy, Debug, PartialEq, Eq, Serialize, Deserialize)]
pub struct Cfg {
    pub futures: bool,
    /// distance between the ids of two consecutive book changes: 1 = consecutive ids (what the spot rule
    /// U = u_prev + 1 presupposes); 2 = ids with holes, as on the futures venue where only pu links two updates
    pub stride: u8,
    pub inst: [InstCfg; 2],
    /// false: ids start at 1000; true: ids start just below 2^32, so that the ids of one configuration lie on
    /// both sides of the 32-bit boundary (the venue's ids are u64 and passed 2^32 long ago)
    #[serde(default)]
    pub base_hi: bool,
    /// > 0: the first `buffered` messages of a delivery reach the transformer as ONE batch of text frames through
    /// the real `process_buffered_events` (the way of messages that arrive while subscriptions are being
    /// validated: `ExchangeWsStream::init` hands that batch to the transformer and puts the results at the head
    /// of the stream); the rest one by one through `transform`. 0: every message through `transform`.
    #[serde(default)]
    pub buffered: u8,
}

const BASE_LO: u64 = 1000;
const BASE_HI: u64 = (1 << 32) - 3;
fn base_of(cfg: &Cfg) -> u64 {
    if cfg.base_hi { BASE_HI } else { BASE_LO }
}
const MARKETS: [&str; 2] = ["BTCUSDT", "ETHUSDT"];
const UNKNOWN_MARKET: &str = "XRPUSDT";

/// (bid?, price, amount) — amount 0 deletes. An empty price marks a change id that touches no level of the
/// book the stream carries: an update made only of such ids is a depth update WITHOUT levels.
type Change = (bool, &'static str, &'static str);
const NO_LEVEL: Change = (true, "", "");

/// Evolution scripts: (initial bids, initial asks, changes). Every prefix gives a different book and
/// re-applying an old update after a newer one is visible (levels are set, deleted and re-set).
fn script(i: u8) -> (Vec<(&'static str, &'static str)>, Vec<(&'static str, &'static str)>, Vec<Change>) {
    match i {
        0 => (
            vec![("100", "1"), ("99", "2")],
            vec![("101", "1"), ("102", "2")],
            vec![(true, "100", "3"), (false, "101", "0"), (true, "98", "4"), (false, "101", "5"), (true, "100", "0"), (false, "103", "6")],
        ),
        1 => (
            vec![("50", "1")],
            vec![("51", "1")],
            vec![(false, "51", "2"), (true, "50", "0"), (true, "49", "7"), (false, "51", "0")],
        ),
        3 => (
            // script 1 with a level-less change in second place
            vec![("50", "1")],
            vec![("51", "1")],
            vec![(false, "51", "2"), NO_LEVEL, (true, "49", "7"), (false, "51", "0")],
        ),
        _ => (
            vec![],
            vec![("101.5", "9")],
            vec![(true, "100.5", "1"), (true, "100.5", "2"), (false, "101.5", "0"), (true, "100.5", "0"), (false, "101.5", "3"), (true, "99", "1")],
        ),
    }
}

#[derive(Clone, Copy, Debug)]
struct Ids {
    first: u64, // U
    last: u64,  // u
    prev: u64,  // pu (futures)
}

enum Msg {
    Spot(BinanceSpotOrderBookL2Update),
    Fut(BinanceFuturesOrderBookL2Update),
}

enum Tf {
    Spot(BinanceSpotOrderBooksL2Transformer<Key>),
    Fut(BinanceFuturesUsdOrderBooksL2Transformer<Key>),
}

impl Tf {
    fn transform(&mut self, m: &Msg) -> Out {
        match (self, m) {
            (Tf::Spot(t), Msg::Spot(m)) => t.transform(m.clone()),
            (Tf::Fut(t), Msg::Fut(m)) => t.transform(m.clone()),
            _ => unreachable!("message of the other rule set"),
        }
    }

    /// the real `process_buffered_events` over a batch of text frames
    fn buffered(&mut self, frames: Vec<WsMessage>) -> Out {
        match self {
            Tf::Spot(t) => barter_data::process_buffered_events::<WebSocketParser, _>(t, frames).into_iter().collect(),
            Tf::Fut(t) => barter_data::process_buffered_events::<WebSocketParser, _>(t, frames).into_iter().collect(),
        }
    }
}

struct Inst {
    snap_id: u64,
    books_at: Vec<(PMap, PMap)>, // venue book after 0..=k changes
    ids: Vec<Ids>,
    msgs: Vec<Msg>,
    raw: Vec<String>, // the payloads as text frames
    levelless: Vec<bool>, // per update: carries no level at all
    sub_id: SubscriptionId,
    snapshot: MarketEvent<Key, OrderBookEvent>,
}

pub struct Scn {
    cfg: Cfg,
    inst: [Inst; 2],
    unknown: Msg,
    unknown_raw: String,
    /// deliveries abandoned because a buffered batch was not processed front to back (never on the current code)
    unattributable: AtomicU64,
    counts: [AtomicU64; 32], // class x outcome, see `bump`
    /// the "messages to the venue" channel every transformer initialisation is handed (the Binance L2
    /// transformers never send); one per scenario instead of one per step
    /// the REST snapshot list handed to every transformer initialisation (order: see `new`)
    snaps: [MarketEvent<Key, OrderBookEvent>; 2],
    ws_sink: (tokio::sync::mpsc::UnboundedSender<barter_integration::protocol::websocket::WsMessage>, std::sync::Mutex<tokio::sync::mpsc::UnboundedReceiver<barter_integration::protocol::websocket::WsMessage>>),
}

fn dec(s: &str) -> Decimal {
    s.parse().unwrap()
}

fn levels_json(m: &[(Decimal, Decimal)]) -> Value {
    Value::Array(m.iter().map(|(p, q)| json!([p.to_string(), q.to_string()])).collect())
}

fn parse_msg(futures: bool, market: &str, ids: Ids, bids: &[(Decimal, Decimal)], asks: &[(Decimal, Decimal)]) -> Msg {
    parse_msg_raw(futures, market, ids, bids, asks).0
}

fn parse_msg_raw(futures: bool, market: &str, ids: Ids, bids: &[(Decimal, Decimal)], asks: &[(Decimal, Decimal)]) -> (Msg, String) {
    // the venue's payloads (formats quoted in the connectors' doc comments), parsed by the real deserialisers
    if futures {
        let v = json!({"e": "depthUpdate", "E": 1671656397761u64, "T": 1671656397760u64, "s": market,
                       "U": ids.first, "u": ids.last, "pu": ids.prev, "b": levels_json(bids), "a": levels_json(asks)});
        let raw = v.to_string();
        (Msg::Fut(serde_json::from_str(&raw).expect("futures depth update payload")), raw)
    } else {
        let v = json!({"e": "depthUpdate", "E": 1671656397761u64, "s": market,
                       "U": ids.first, "u": ids.last, "b": levels_json(bids), "a": levels_json(asks)});
        let raw = v.to_string();
        (Msg::Spot(serde_json::from_str(&raw).expect("spot depth update payload")), raw)
    }
}

fn sub_id_of(m: &Msg) -> SubscriptionId {
    match m {
        Msg::Spot(m) => m.subscription_id.clone(),
        Msg::Fut(m) => m.subscription_id.clone(),
    }
}

impl Inst {
    fn build(futures: bool, stride: u64, base: u64, key: Key, c: InstCfg) -> Inst {
        let id = |t: usize| base + stride * t as u64;
        let (b0, a0, changes) = script(c.script);
        let k = c.k as usize;
        assert!(k >= 1 && k <= changes.len() && (c.snap as usize) <= k);
        let mut bids: PMap = b0.iter().map(|(p, q)| (dec(p), dec(q))).collect();
        let mut asks: PMap = a0.iter().map(|(p, q)| (dec(p), dec(q))).collect();
        let mut books_at = vec![(bids.clone(), asks.clone())];
        for (is_bid, p, q) in changes.iter().take(k) {
            if !p.is_empty() {
                let side = if *is_bid { &mut bids } else { &mut asks };
                if dec(q).is_zero() { side.remove(&dec(p)); } else { side.insert(dec(p), dec(q)); }
            }
            books_at.push((bids.clone(), asks.clone()));
        }
        // composition into updates
        let market = MARKETS[key as usize];
        let (mut ids, mut msgs, mut raw, mut levelless) = (Vec::new(), Vec::new(), Vec::new(), Vec::new());
        let (mut start, mut prev) = (1usize, base);
        for end in 1..=k {
            if end == k || c.cuts & (1 << (end - 1)) != 0 {
                let id = Ids { first: id(start), last: id(end), prev };
                // absolute amounts (as of `end`) of the levels touched by changes start..=end
                let touched = |want_bid: bool| -> Vec<(Decimal, Decimal)> {
                    let mut v: Vec<(Decimal, Decimal)> = Vec::new();
                    for (is_bid, p, _) in changes[start - 1..end].iter().filter(|c| !c.1.is_empty()) {
                        let p = dec(p);
                        if *is_bid == want_bid && !v.iter().any(|(x, _)| *x == p) {
                            let book = if want_bid { &books_at[end].0 } else { &books_at[end].1 };
                            v.push((p, book.get(&p).copied().unwrap_or(Decimal::ZERO)));
                        }
                    }
                    v
                };
                let (tb, ta) = (touched(true), touched(false));
                levelless.push(tb.is_empty() && ta.is_empty());
                let (m, r) = parse_msg_raw(futures, market, id, &tb, &ta);
                msgs.push(m);
                raw.push(r);
                ids.push(id);
                prev = id.last;
                start = end + 1;
            }
        }
        // REST snapshot payload at `snap`
        let snap_id = id(c.snap as usize);
        let (sb, sa) = &books_at[c.snap as usize];
        let sbv: Vec<(Decimal, Decimal)> = sb.iter().rev().map(|(p, q)| (*p, *q)).collect();
        let sav: Vec<(Decimal, Decimal)> = sa.iter().map(|(p, q)| (*p, *q)).collect();
        let mut v = json!({"lastUpdateId": snap_id, "bids": levels_json(&sbv), "asks": levels_json(&sav)});
        if futures {
            v["E"] = json!(1589436922972u64);
            v["T"] = json!(1589436922959u64);
        }
        let snap: BinanceOrderBookL2Snapshot = serde_json::from_str(&v.to_string()).expect("snapshot payload");
        let exchange = if futures { ExchangeId::BinanceFuturesUsd } else { ExchangeId::BinanceSpot };
        let sub_id = sub_id_of(&parse_msg(futures, market, Ids { first: 0, last: 0, prev: 0 }, &[], &[]));
        Inst { snap_id, books_at, ids, msgs, raw, levelless, sub_id, snapshot: MarketEvent::from((exchange, key, snap)) }
    }
}

impl Scn {
    pub fn new(cfg: Cfg) -> Self {
        let base = base_of(&cfg);
        let inst = [Inst::build(cfg.futures, cfg.stride as u64, base, 0, cfg.inst[0]), Inst::build(cfg.futures, cfg.stride as u64, base, 1, cfg.inst[1])];
        let (unknown, unknown_raw) = parse_msg_raw(cfg.futures, UNKNOWN_MARKET, Ids { first: base + 1, last: base + 1, prev: base }, &[(dec("7"), dec("7"))], &[]);
        let (tx, rx) = tokio::sync::mpsc::unbounded_channel();
        let reversed = (cfg.inst[0].cuts as u32 + cfg.inst[0].snap as u32) % 2 == 1;
        let snaps = if reversed {
            [inst[1].snapshot.clone(), inst[0].snapshot.clone()]
        } else {
            [inst[0].snapshot.clone(), inst[1].snapshot.clone()]
        };
        Scn { cfg, inst, unknown, unknown_raw, unattributable: AtomicU64::new(0), snaps, counts: std::array::from_fn(|_| AtomicU64::new(0)), ws_sink: (tx, std::sync::Mutex::new(rx)) }
    }

    /// The real transformer, initialised as `ExchangeWsStream::init` does: subscription map + REST snapshots.
    fn init_tf(&self) -> Tf {
        let map: Map<Key> = [(self.inst[0].sub_id.clone(), 0u32), (self.inst[1].sub_id.clone(), 1u32)].into_iter().collect();
        // The order of the REST snapshot list is not part of the contract (`init` pairs a snapshot with
        // its instrument by key; the subscription map iterates in hash order): half of the
        // configurations hand the snapshots over in subscription order, the other half reversed, so a
        // positional pairing cannot go unnoticed whatever the hash order happens to be.
        let snaps = &self.snaps;
        let tx = self.ws_sink.0.clone();
        if self.cfg.futures {
            Tf::Fut(futures::executor::block_on(BinanceFuturesUsdOrderBooksL2Transformer::<Key>::init(map, snaps, tx)).expect("transformer init"))
        } else {
            Tf::Spot(futures::executor::block_on(BinanceSpotOrderBooksL2Transformer::<Key>::init(map, snaps, tx)).expect("transformer init"))
        }
    }

    fn raw(&self, s: &Sym) -> &String {
        if s.inst >= 2 { &self.unknown_raw } else { &self.inst[s.inst as usize].raw[s.k as usize] }
    }

    fn msg(&self, s: &Sym) -> &Msg {
        if s.inst >= 2 { &self.unknown } else { &self.inst[s.inst as usize].msgs[s.k as usize] }
    }

    fn rules(&self) -> &'static str {
        if self.cfg.futures { "futures" } else { "spot" }
    }

    fn bump(&self, class: Class, outcome: usize) {
        self.counts[class as usize * 4 + outcome].fetch_add(1, Ordering::Relaxed);
    }
}

// ------------------------------------------------------------------------------------------------
// Monitor
// ------------------------------------------------------------------------------------------------

/// One delivered message: index `k` into the composition of instrument `inst` (inst 2 = un-subscribed market).
#[derive(Clone, Copy, Debug, PartialEq, Eq, Serialize, Deserialize)]
pub struct Sym {
    pub inst: u8,
    pub k: u8,
}

#[derive(Clone, Copy, Debug, PartialEq, Eq, Hash)]
enum Clean {
    Pre,       // only messages older than the snapshot so far
    Chain(u8), // the covering update and its successors were delivered in order; next expected index
    Dirty,
}

#[derive(Clone, Copy, Debug, PartialEq, Eq, Hash)]
#[repr(usize)]
enum Class {
    Older = 0,    // entirely at or before the snapshot / the chain position
    Duplicate,    // futures: u == pos (the last admitted update again)
    Covering,     // may start the chain
    Next,         // continues the chain
    Gap,          // beyond the next expected update
    Overlap,      // straddles the chain position (cannot come from one composition; only after a defect)
    Unknown,      // un-subscribed market
}
const CLASS_NAMES: [&str; 7] = ["older", "duplicate-of-last", "covering-snapshot", "next-in-chain", "gap", "overlap", "unknown-market"];
const OUTCOME_NAMES: [&str; 4] = ["admitted", "dropped", "terminal-error", "non-terminal-error"];

#[derive(Clone, Debug, PartialEq, Eq, Hash)]
struct Mon {
    /// Chain positions the implementation may be at (u of the last update it consumed; None = chain not
    /// started). One entry, except after a LEVEL-LESS update that continued the chain produced no output: the
    /// implementation may have consumed it silently (position = its u) or ignored it (position unchanged) -
    /// the book is right either way, the statement does not choose, so both positions are carried until the
    /// next output tells them apart. `cands[0]` is the primary one (used for classification counts and texts).
    cands: Vec<Option<u64>>,
    clean: Clean,
    desynced: bool, // R-chain already violated: the book is no longer judged
}

impl Mon {
    fn pos(&self) -> Option<u64> {
        self.cands[0]
    }
}

#[derive(Clone)]
pub struct St {
    books: [OrderBook; 2], // the consumer's real local books
    mon: [Mon; 2],
    ended: bool, // a terminal error ended the connection
    unknown_used: bool,
    /// `Cfg::buffered`: number of outputs of the buffered batch the consumer has been handed so far
    batch_outs: usize,
}

fn classify(futures: bool, snap: u64, pos: Option<u64>, m: Ids) -> Class {
    match (futures, pos) {
        (false, None) => if m.last <= snap { Class::Older } else if m.first <= snap + 1 { Class::Covering } else { Class::Gap },
        (true, None) => if m.last < snap { Class::Older } else if m.first <= snap { Class::Covering } else { Class::Gap },
        (false, Some(p)) => if m.last <= p { Class::Older } else if m.first == p + 1 { Class::Next } else if m.first > p + 1 { Class::Gap } else { Class::Overlap },
        (true, Some(p)) => if m.last < p { Class::Older } else if m.last == p { Class::Duplicate } else if m.prev == p { Class::Next } else if m.prev > p { Class::Gap } else { Class::Overlap },
    }
}

fn book_matches(book: &OrderBook, venue: &(PMap, PMap)) -> bool {
    let b: Vec<(Decimal, Decimal)> = book.bids().levels().iter().map(|l| (l.price, l.amount)).collect();
    let a: Vec<(Decimal, Decimal)> = book.asks().levels().iter().map(|l| (l.price, l.amount)).collect();
    b == venue.0.iter().rev().map(|(p, q)| (*p, *q)).collect::<Vec<_>>() && a == venue.1.iter().map(|(p, q)| (*p, *q)).collect::<Vec<_>>()
}

impl Scn {
    fn judge_book(&self, i: usize, st: &St, when: &str, out: &mut Vec<Viol>) {
        let inst = &self.inst[i];
        let book = &st.books[i];
        let r = self.rules();
        let base = base_of(&self.cfg);
        let off = book.sequence.wrapping_sub(base);
        let idx = (off / self.cfg.stride as u64) as usize;
        if book.sequence < base || off % self.cfg.stride as u64 != 0 || idx >= inst.books_at.len() {
            out.push((format!("C06/{r}/book/reports-a-sequence-the-venue-never-had"), format!("{when}: instrument {i} local book sequence {}", book.sequence)));
        } else if !book_matches(book, &inst.books_at[idx]) {
            out.push((
                format!("C06/{r}/book/differs-from-venue-book-at-reported-sequence"),
                format!("{when}: instrument {i} local book (sequence {}) bids={:?} asks={:?}; venue book at {} is bids={:?} asks={:?}",
                    book.sequence, book.bids().levels(), book.asks().levels(), book.sequence, inst.books_at[idx].0, inst.books_at[idx].1),
            ));
        }
    }
}

impl SeqModel for Scn {
    type State = St;
    type Sym = Sym;

    fn init(&self) -> St {
        // the consumer receives the REST snapshots first
        let mut books = [OrderBook::default(), OrderBook::default()];
        for i in 0..2 {
            books[i].update(self.inst[i].snapshot.kind.clone());
        }
        let mon = Mon { cands: vec![None], clean: Clean::Pre, desynced: false };
        St { books, mon: [mon.clone(), mon], ended: false, unknown_used: false, batch_outs: 0 }
    }

    fn alphabet(&self, s: &St, _h: &[Sym]) -> Vec<Sym> {
        if s.ended {
            return vec![]; // with_termination_on_error: nothing is delivered after a terminal error
        }
        let mut v = Vec::new();
        for inst in 0..2u8 {
            for k in 0..self.inst[inst as usize].msgs.len() as u8 {
                v.push(Sym { inst, k });
            }
        }
        if !s.unknown_used {
            v.push(Sym { inst: 2, k: 0 });
        }
        v
    }

    fn at_end(&self, s: &St, hist: &[Sym], out: &mut Vec<Viol>) {
        if hist.is_empty() {
            for i in 0..2 {
                self.judge_book(i, s, "after the REST snapshot", out);
            }
        }
    }

    fn step(&self, st: &mut St, sym: &Sym, hist: &[Sym], out: &mut Vec<Viol>) {
        let r = self.rules();
        // real code: fresh transformer, history re-delivered, then this message
        let b = self.cfg.buffered as usize;
        let batch_seen = st.batch_outs;
        let res = catch_unwind(AssertUnwindSafe(|| {
            let mut tf = self.init_tf();
            if b == 0 {
                for h in hist {
                    let _ = tf.transform(self.msg(h));
                }
                return Some(tf.transform(self.msg(sym)));
            }
            // the first `b` messages of the delivery are one buffered batch; what the batch of the first n+1
            // messages yields beyond what the batch of the first n yielded is the output for message n+1
            let all: Vec<&Sym> = hist.iter().chain(std::iter::once(sym)).collect();
            let in_batch = b.min(all.len());
            let frames: Vec<WsMessage> = all[..in_batch].iter().map(|s| WsMessage::text(self.raw(s).clone())).collect();
            let batch_out = tf.buffered(frames);
            if hist.len() < b {
                if batch_out.len() < batch_seen {
                    return None; // the batch is not processed front to back: outputs cannot be attributed
                }
                return Some(batch_out.into_iter().skip(batch_seen).collect());
            }
            for h in &all[in_batch..hist.len()] {
                let _ = tf.transform(self.msg(h));
            }
            Some(tf.transform(self.msg(sym)))
        }));
        let outputs: Out = match res {
            Ok(Some(o)) => {
                if hist.len() < b {
                    st.batch_outs += o.len();
                }
                o
            }
            Ok(None) => {
                self.unattributable.fetch_add(1, Ordering::Relaxed);
                st.ended = true;
                return;
            }
            Err(_) => {
                out.push((format!("C06/{r}/panic"), format!("transform panicked on {sym:?} after {hist:?} ({:?})", self.cfg)));
                st.ended = true;
                return;
            }
        };
        let describe = |what: &str| format!("{what}; delivery {hist:?} + {sym:?}; {}", self.explain(sym));

        if sym.inst >= 2 {
            st.unknown_used = true;
            for o in &outputs {
                match o {
                    Ok(ev) => {
                        self.bump(Class::Unknown, 0);
                        out.push((format!("C06/{r}/routing/event-from-unsubscribed-market"), describe(&format!("event for instrument {} emitted", ev.instrument))));
                        if let Some(b) = st.books.get_mut(ev.instrument as usize) {
                            b.update(ev.kind.clone());
                            st.mon[ev.instrument as usize].desynced = true;
                        }
                    }
                    Err(e) => {
                        self.bump(Class::Unknown, if e.is_terminal() { 2 } else { 3 });
                        st.ended |= e.is_terminal();
                    }
                }
            }
            if outputs.is_empty() {
                self.bump(Class::Unknown, 1);
            }
            return;
        }

        let i = sym.inst as usize;
        let inst = &self.inst[i];
        let ids = inst.ids[sym.k as usize];
        // delivery-side bookkeeping for R-inorder (independent of what the implementation does)
        let pre_class = classify(self.cfg.futures, inst.snap_id, None, ids);
        let clean_after = match st.mon[i].clean {
            Clean::Pre => match pre_class {
                Class::Older => Clean::Pre,
                Class::Covering => Clean::Chain(sym.k + 1),
                _ => Clean::Dirty,
            },
            Clean::Chain(n) if n == sym.k => Clean::Chain(n + 1),
            _ => Clean::Dirty,
        };
        st.mon[i].clean = clean_after;
        let in_order = clean_after != Clean::Dirty;
        // implementation-side classification: relative to the chain the implementation has admitted so far
        // (one class per candidate position, see `Mon::cands`)
        let classes: Vec<Class> = st.mon[i].cands.iter().map(|c| classify(self.cfg.futures, inst.snap_id, *c, ids)).collect();
        let class = classes[0];
        let breaking = |c: Class| matches!(c, Class::Gap | Class::Overlap);
        let breaks_chain = classes.iter().all(|c| breaking(*c));
        let levelless = inst.levelless[sym.k as usize];

        if outputs.is_empty() {
            self.bump(class, 1);
            if levelless {
                // a level-less update that produces no event cannot make the book wrong, whatever the
                // implementation did with it: consumed (if it continues the chain) or ignored
                let mut next = st.mon[i].cands.clone();
                for (c, cl) in st.mon[i].cands.iter().zip(&classes) {
                    if matches!((c, cl), (None, Class::Covering) | (Some(_), Class::Next)) && !next.contains(&Some(ids.last)) {
                        next.push(Some(ids.last));
                    }
                }
                st.mon[i].cands = next;
            } else if breaks_chain {
                out.push((format!("C06/{r}/break-not-surfaced/{}-silently-dropped", CLASS_NAMES[class as usize]), describe("no output at all")));
            } else {
                // a silent drop is no break only at the positions where the message is not beyond the chain
                let keep: Vec<Option<u64>> = st.mon[i].cands.iter().zip(&classes).filter(|(_, cl)| !breaking(**cl)).map(|(c, _)| *c).collect();
                st.mon[i].cands = keep;
            }
        }
        for o in outputs {
            match o {
                Ok(ev) => {
                    self.bump(class, 0);
                    let target = ev.instrument as usize;
                    if target != i {
                        out.push((format!("C06/{r}/routing/event-names-other-instrument"), describe(&format!("event names instrument {target}, the message is for {i}"))));
                        if let Some(b) = st.books.get_mut(target) {
                            b.update(ev.kind.clone());
                            st.mon[target].desynced = true;
                        }
                        continue;
                    }
                    // R-chain
                    let ok = st.mon[i].cands.iter().zip(&classes).any(|(c, cl)| matches!((c, cl), (None, Class::Covering) | (Some(_), Class::Next)));
                    if !ok {
                        let which = if st.mon[i].pos().is_none() { "first-admitted-does-not-cover-snapshot" } else { "admitted-does-not-follow-previous" };
                        out.push((format!("C06/{r}/chain/{which}/{}", CLASS_NAMES[class as usize]), describe(&format!("update admitted while chain position is {:?} (snapshot id {})", st.mon[i].cands, inst.snap_id))));
                        st.mon[i].desynced = true;
                    }
                    st.mon[i].cands = vec![Some(ids.last)];
                    st.books[i].update(ev.kind);
                    // R-book
                    if !st.mon[i].desynced {
                        let mut v = Vec::new();
                        self.judge_book(i, st, "after an admitted update", &mut v);
                        if !v.is_empty() {
                            st.mon[i].desynced = true;
                        }
                        out.extend(v.into_iter().map(|(s, d)| (s, describe(&d))));
                    }
                }
                Err(e) => {
                    let terminal = e.is_terminal();
                    self.bump(class, if terminal { 2 } else { 3 });
                    if in_order {
                        // R-inorder
                        let phase = match class {
                            Class::Older => "older-than-snapshot-before-chain-start".to_string(),
                            c => CLASS_NAMES[c as usize].to_string(),
                        };
                        out.push((format!("C06/{r}/in-order-delivery-errors/{phase}"), describe(&format!("Err({e})"))));
                    } else if breaks_chain && !terminal {
                        // R-break
                        out.push((format!("C06/{r}/break-not-surfaced/error-is-not-terminal"), describe(&format!("Err({e}) with is_terminal()=false"))));
                    }
                    st.ended |= terminal;
                }
            }
        }
    }

    fn final_hash(&self, s: &St) -> u64 {
        let b = |k: &OrderBook| (k.sequence, k.bids().levels().to_vec(), k.asks().levels().to_vec());
        hash_of(&(b(&s.books[0]), b(&s.books[1]), &s.mon[0].cands, &s.mon[1].cands, s.ended))
    }
}

impl Scn {
    fn explain(&self, sym: &Sym) -> String {
        let mut s = format!("{} rules, id stride {}", self.rules(), self.cfg.stride);
        for i in 0..2 {
            s += &format!("; instrument {i}: snapshot id {}, updates {:?}", self.inst[i].snap_id,
                self.inst[i].ids.iter().map(|d| if self.cfg.futures { format!("[U={} u={} pu={}]", d.first, d.last, d.prev) } else { format!("[U={} u={}]", d.first, d.last) }).collect::<Vec<_>>());
        }
        if sym.inst >= 2 {
            s += "; message is for an un-subscribed market";
        }
        s
    }
}

// ------------------------------------------------------------------------------------------------

/// Configuration sweep: instrument 0 runs through every composition x snapshot point of its script;
/// instrument 1 takes a small menu (so that its messages interleave with every chain state of instrument 0).
fn configs(k0: u8, scripts0: &[u8], menu1: &[InstCfg], buffered: &[u8]) -> Vec<Cfg> {
    let mut v = Vec::new();
    for &buffered in buffered {
    for (futures, stride) in [(false, 1u8), (true, 1), (true, 2)] {
        for &script in scripts0 {
            for cuts in 0..(1u8 << (k0 - 1)) {
                for snap in 0..=k0 {
                    for m1 in menu1 {
                        // the id range is not a swept dimension of its own (the rules only compare ids): half of the
                        // compositions run with ids around 1000, the other half with ids on both sides of 2^32
                        let base_hi = cuts & 0b10 != 0;
                        v.push(Cfg { futures, stride, inst: [InstCfg { script, k: k0, cuts, snap }, *m1], base_hi, buffered });
                    }
                }
            }
        }
    }
    }
    v
}

pub fn run(ctx: &Ctx) -> Outcome {
    // (k of instrument 0, scripts of instrument 0, menu of instrument 1, max delivery length)
    // instrument 1: script 3 (level-less second change; one update per change, so the second update carries no
    // level: it continues the chain at snapshot point 0 and is the covering update at snapshot point 1) and
    // script 1 (a two-change first update, everything stale)
    let b = |script: u8, k: u8, cuts: u8, snap: u8| InstCfg { script, k, cuts, snap };
    let menu3 = vec![b(3, 3, 0b11, 0), b(3, 3, 0b11, 1), b(1, 3, 0b10, 2), b(1, 3, 0b00, 3)];
    // last column: sizes of the buffered batch at the head of the delivery (0 = none, see `Cfg::buffered`)
    let sweeps: Vec<(u8, Vec<u8>, Vec<InstCfg>, usize, Vec<u8>)> = ctx.tier.pick(
        vec![(5, vec![0], menu3.clone(), 6, vec![0]), (4, vec![0], menu3.clone(), 4, vec![2, 4])],
        vec![
            (5, vec![0, 2], menu3.clone(), 7, vec![0]),
            (6, vec![0, 2], menu3.clone(), 6, vec![0]),
            (5, vec![0, 2], menu3.clone(), 4, vec![1, 2, 3, 4]),
            (4, vec![0, 2], menu3.clone(), 5, vec![1, 2, 3, 4, 5]),
        ],
    );
    let (mut sequences, mut steps, mut n_cfg) = (0u64, 0u64, 0usize);
    let mut distinct_final = 0usize;
    let mut table: BTreeMap<String, u64> = BTreeMap::new();
    let mut samples = Vec::new();
    let mut bounds = Vec::new();
    let (mut buffered_sequences, mut unattributable) = (0u64, 0u64);
    for (k0, scripts0, menu1, max_len, buffered) in &sweeps {
        let cfgs = configs(*k0, scripts0, menu1, buffered);
        bounds.push(json!({"changes_instrument0": k0, "scripts_instrument0": scripts0, "menu_instrument1": menu1, "max_delivery_len": max_len, "buffered_batch_sizes": buffered, "configurations": cfgs.len()}));
        n_cfg += cfgs.len();
        // configurations in parallel (the seq engine also parallelises inside one configuration)
        let unatt = AtomicU64::new(0);
        let results: Vec<(Cfg, seq::SeqStats, Vec<(String, u64)>)> = cfgs
            .par_iter()
            .map(|cfg| {
                let scn = Scn::new(*cfg);
                let label = serde_json::to_string(cfg).unwrap();
                let st = seq::run(ctx, &scn, &label, *max_len);
                let mut t = Vec::new();
                for c in 0..7 {
                    for o in 0..4 {
                        let n = scn.counts[c * 4 + o].load(Ordering::Relaxed);
                        if n > 0 {
                            t.push((format!("{}/{}/{}", scn.rules(), CLASS_NAMES[c], OUTCOME_NAMES[o]), n));
                        }
                    }
                }
                unatt.fetch_add(scn.unattributable.load(Ordering::Relaxed), Ordering::Relaxed);
                (*cfg, st, t)
            })
            .collect();
        unattributable += unatt.load(Ordering::Relaxed);
        for (cfg, st, t) in results {
            if cfg.buffered > 0 {
                buffered_sequences += st.sequences;
            }
            sequences += st.sequences;
            steps += st.steps;
            distinct_final += st.distinct_final; // distinct final (local books, chain positions, ended) per configuration
            for (k, n) in t {
                *table.entry(k).or_insert(0) += n;
            }
            if samples.len() < 4 && st.sequences > 1000 {
                samples.push(json!({"config": cfg, "sequences": st.sequences, "distinct_final_states": st.distinct_final}));
            }
        }
    }
    // layer 2: the real stream initialisation against a scripted venue on loopback
    // A loopback layer that cannot complete is a machinery failure (exit 2) - unless violations have already been
    // recorded: a defect that derails a later layer must not hide what an earlier layer found.
    let mut layers_not_completed: Vec<String> = Vec::new();
    let init = match super::c06_init::run(ctx) {
        Ok(st) => st,
        Err(e) if ctx.violations.len() > 0 => {
            layers_not_completed.push(format!("stream-initialisation: {e}"));
            super::c06_init::InitStats { executions: 0, distinct_outcomes: 0, events: 0, samples: vec![] }
        }
        Err(e) => {
            eprintln!("MACHINERY: C06 stream-initialisation layer failed: {e}");
            std::process::exit(2);
        }
    };
    let reinit = match super::c06_init::run_reinit(ctx) {
        Ok(st) => st,
        Err(e) if ctx.violations.len() > 0 => {
            layers_not_completed.push(format!("re-initialisation: {e}"));
            super::c06_init::ReinitStats { executions: 0, connections: 0, snapshot_fetches: 0, trace: vec![] }
        }
        Err(e) => {
            eprintln!("MACHINERY: C06 re-initialisation layer failed: {e}");
            std::process::exit(2);
        }
    };
    Outcome {
        level: "exploration",
        coverage: json!({
            "loopback_layers_not_completed_after_violations_were_found": layers_not_completed,
            "reinit_layer_executions": reinit.executions,
            "reinit_layer_connections_accepted": reinit.connections,
            "reinit_layer_snapshot_fetches": reinit.snapshot_fetches,
            "reinit_layer_items": reinit.trace,
            "reinit_layer_rule": "real init_market_stream (reconnecting stream + termination on is_terminal errors) around the real ExchangeWsStream::init and the real Binance spot L2 transformer, for a harness exchange type with a scripted snapshot fetcher, against a loopback venue: connection 1 delivers updates 1,3,4 after a snapshot at 0; the item after the sequence error must be the snapshot of a new initialisation (connection 2: snapshot at 2, updates 2,3,4), never another item of the old connection; book == venue book at its sequence while not told invalid; second script: connection 1 = snapshot 0 + updates 1,2,4, connection 2 = snapshot 3 + updates 3,4 - the new snapshot no longer contains a level the invalid book holds (the book is replaced, not merged into)",
            "init_layer_executions": init.executions,
            "init_layer_distinct_event_traces": init.distinct_outcomes,
            "init_layer_events": init.events,
            "init_layer_samples": init.samples,
            "init_layer_rule": "real ExchangeWsStream::<BinanceSpotOrderBooksL2Transformer>::init and ::<BinanceFuturesUsdOrderBooksL2Transformer>::init against a scripted loopback venue: updates 1..4 in order (or starting at 2) after the subscription confirmation, REST snapshot at S in 0..=4 (lagging or leading the socket); the same with a SECOND instrument subscribed on the connection (own book evolution, own start 1/2, own snapshot point; updates of the two instruments alternate on the socket); consumer applies the yielded events in order to one book per instrument; once an instrument's snapshot was applied its book must equal the venue book at its sequence unless a sequence error was yielded; deliveries that contain the update covering the snapshot (for every instrument) never error; a delivery that starts beyond it yields the sequence error; every subscribed instrument gets its snapshot",
            "evaluations": sequences,
            "deliveries_with_a_buffered_batch_at_the_head": buffered_sequences,
            "deliveries_abandoned_because_a_buffered_batch_was_not_processed_front_to_back": unattributable,
            "steps": steps,
            "configurations": n_cfg,
            "distinct_nontrivial": distinct_final,
            "distinct_class_outcome_pairs": table.len(),
            "class_outcome_counts": table,
            "exhaustive": true,
            "bounds": bounds,
            "rule": "every delivery sequence (length <= L) over the depth updates of two instruments + one un-subscribed market message, through the real Binance spot / futures L2 transformer (ExchangeTransformer::init) into real OrderBooks - message by message through transform, and (second sweep) with the first b messages handed over as one batch of text frames through the real process_buffered_events (the way of messages received while subscriptions are validated); venue-rule monitor: admitted updates form the published chain, book == venue book at its sequence, gaps give a terminal error, in-order delivery after older messages never errors",
            "samples": samples,
        }),
        assumptions: vec![
            "venue evolutions are the fixed scripts of this file (4 scripts, every composition into updates, every snapshot point); ids are consecutive per instrument (futures also with holes); half of the configurations use ids around 1000, half ids on both sides of 2^32".into(),
            "one script has a change id that touches no level, so one of its updates carries no level at all: such an update continues / covers the chain like any other; if it produces no event the implementation may have consumed or ignored it (both positions are carried by the monitor); admitting it across a gap is still a chain violation".into(),
            "an update carries the absolute amounts (as of its last id) of exactly the levels touched in its id range, as the venue documents".into(),
            "REST snapshots are well-formed; in the transformer layer they are delivered to the consumer before the first depth update; the ordering of buffered events inside ExchangeWsStream::init is exercised by the separate loopback layer (spot and futures; one and two instruments per connection - in a two-instrument script the consumer's connection ends at the first sequence error, as with_termination_on_error makes it)".into(),
            "re-initialisation layer: init_market_stream is run for a harness exchange type (Binance's protocol, scripted REST fetcher) because Binance's own fetcher has a constant REST URL; the transformer, sequencers, stream initialisation and reconnect / termination combinators are the real ones; a stream that stays silent for 30 s after a sequence error while the venue accepts connections counts as not re-initialising".into(),
            "a stale or duplicated message after the chain has started may be dropped or answered with an error (the statement leaves it open)".into(),
            "buffered batch: the outputs of the batch of the first n+1 messages beyond those of the batch of the first n are taken as the output for message n+1 (the batch is processed front to back); a delivery where that does not hold is abandoned unjudged and counted".into(),
        ],
    }
}

pub fn replay(ctx: &Ctx, case: &Value) {
    if case["engine"] == "c06-init" {
        return super::c06_init::replay(ctx, case);
    }
    let cfg: Cfg = serde_json::from_str(case["label"].as_str().expect("replay: label")).expect("replay: label is not a configuration");
    let scn = Scn::new(cfg);
    println!("configuration: {}", scn.explain(&Sym { inst: 0, k: 0 }));
    for (sig, detail) in seq::replay(&scn, case) {
        ctx.violate(sig, detail, case.clone());
    }
}
