//! C20 — Backtests consume their whole dataset in order and do not affect one another.
//!
//! Engine: **E-ENV at whole-system level**. Every execution is the REAL `barter::backtest::backtest` /
//! `run_backtests` (execution builder, mock exchange with latency tasks, execution manager, system
//! builder, forwarders, `async_run`, `shutdown_after_backtest`, summary generator) driven to completion on
//! a fresh current-thread tokio runtime with a *paused* clock. All timing of the environment is owned by
//! the harness and enumerated exhaustively:
//!
//! * the market data source is a harness `BacktestMarketData` that sleeps a virtual delay `w_i` before
//!   yielding event `i` and a tail delay `w_{n+1}` before ending the stream (pacing vector, every
//!   combination of the menu), or the real `MarketDataInMemory` (no pacing at all);
//! * the mock exchange answers after the configured virtual latency `L`;
//! * so each pacing fixes one relative order of "next market event" vs "execution response /
//!   notification" entering the engine's single FIFO feed — the only scheduling freedom that can change
//!   what an engine computes on a current-thread runtime. The menu avoids coinciding deadlines
//!   (no run of consecutive delays sums to L; asserted at start), so there are no uncontrolled ties.
//! * an auxiliary, non-exhaustive smoke run on a real-time 4-worker runtime repeats the timing-independent
//!   rules (R1, R3) and is reported under its own evidence key / signature prefix `C20/mt-smoke/`.
//!
//! Observation without hooks: a recording `GlobalData` (a plain `Vec` inside the engine state, hence
//! cloned per backtest with the rest of the shared initial state) logs every market event and fill the
//! engine processes; the per-backtest `AlgoStrategy` (consulted by the engine after every processed
//! event, never after `Shutdown`) copies that log plus positions / balances / realised PnL into an
//! `Arc<Mutex<Record>>` private to that backtest. The last copy is the engine's final state.
//!
//! Alphabet: datasets of n trade events over 2 instruments (every instrument pattern, distinct ids,
//! colliding prices, strictly increasing timestamps one hour apart), strategies "buy 1 on market event b,
//! sell 1 on market event s" for all b < s <= n+1 (s = n+1: never sold, position stays open) plus an idle
//! strategy — decisions depend on the market-event count only, never on the arrival of responses (the class
//! the statement quantifies over); N in {1,2,3} concurrent members with every ordered assignment of
//! strategies (repetitions included: identical cids in different members collide on purpose). The space is
//! a plain product (no data-dependent choice points), so it is enumerated with nested loops + rayon rather
//! than with the `choice` explorer. Bounds per tier are in `run` and in the evidence (`bounds`).
//!
//! Because the sweep itself runs many backtests on 16 OS threads of one process, a defect that couples
//! backtests through process-global state also shows up as interference BETWEEN sweep workers. Violations
//! are therefore first collected as candidates; after the sweep every signature is confirmed by a serial
//! re-run (candidate cases, then a serial search of the small cases). Only if no case shows the signature on
//! its own is the artefact marked `needs_parallel_context`, and `replay` then re-runs it under concurrent
//! load (noisy-neighbour threads).
//!
//! Oracles (each from one sentence of the statement):
//!  R1 completeness/order  "feeds every event of its market dataset to its engine exactly once and in
//!     dataset order before shutting the engine down … nothing is skipped": the engine-local market log
//!     equals the dataset, for every pacing, every member, alone and in a batch; the backtest succeeds.
//!  R2 isolation (differential, no hand-written expectation) "running many backtests concurrently over
//!     the same shared data and configuration gives each one the same fills, final positions, balances
//!     and realised PnL that it produces when run alone": member i of a batch == the same strategy run
//!     alone (direct `backtest()` on its own runtime) under the same dataset and pacing. Timestamps are
//!     excluded (`HistoricalClock` adds wall-clock deltas). Running the same backtest alone twice must
//!     give the same outcome too (otherwise "what it produces when run alone" is not even defined —
//!     sequential backtests affecting one another through process-global state).
//!  R3 own summary "the summary it returns is computed from that engine alone": the summary's id /
//!     risk-free return are those of its own dynamic arguments, its per-instrument PnL and per-asset end
//!     balances equal the values exported by the SAME backtest's engine, and the summary (time-free
//!     fields) equals the summary of the alone run.

use crate::core::{Ctx, Distinct, Outcome, Samples, hash_of};
use crate::explore::env::paused_rt;
use barter::{
    backtest::{
        BacktestArgsConstant, BacktestArgsDynamic, backtest,
        market_data::{BacktestMarketData, MarketDataInMemory},
        run_backtests,
        summary::BacktestSummary,
    },
    engine::{
        Engine, Processor,
        state::{
            EngineState,
            instrument::{data::DefaultInstrumentMarketData, filter::InstrumentFilter},
            trading::TradingState,
        },
    },
    error::BarterError,
    risk::DefaultRiskManager,
    statistic::time::Daily,
    strategy::{
        algo::AlgoStrategy, close_positions::ClosePositionsStrategy,
        on_disconnect::OnDisconnectStrategy, on_trading_disabled::OnTradingDisabled,
    },
    system::config::ExecutionConfig,
};
use barter_data::{
    event::{DataKind, MarketEvent},
    streams::consumer::MarketStreamEvent,
    subscription::trade::PublicTrade,
};
use barter_execution::{
    AccountEvent, AccountEventKind, InstrumentAccountSnapshot, UnindexedAccountSnapshot,
    balance::{AssetBalance, Balance},
    client::mock::MockExecutionConfig,
    order::{
        OrderKey, OrderKind, TimeInForce,
        id::{ClientOrderId, StrategyId},
        request::{OrderRequestCancel, OrderRequestOpen, RequestOpen},
    },
};
use barter_instrument::{
    Side, Underlying,
    asset::{AssetIndex, name::AssetNameExchange},
    exchange::{ExchangeId, ExchangeIndex},
    index::IndexedInstruments,
    instrument::{Instrument, InstrumentIndex, name::InstrumentNameExchange},
};
use chrono::{DateTime, TimeDelta, Utc};
use futures::{Stream, StreamExt, stream::BoxStream};
use rayon::prelude::*;
use rust_decimal::Decimal;
use rust_decimal_macros::dec;
use serde::{Deserialize, Serialize};
use serde_json::{Value, json};
use smol_str::SmolStr;
use std::{
    collections::{BTreeMap, HashSet},
    sync::{
        Arc, Mutex,
        atomic::{AtomicU64, Ordering},
    },
};

// ------------------------------------------------------------------------------------------------
// Fixed configuration
// ------------------------------------------------------------------------------------------------

/// Mock exchange latency (virtual ms). Response and notifications land `L` after the request.
const LATENCY_MS: u64 = 100;
/// Pacing menu (virtual ms). No sum of <= 5 menu values equals LATENCY_MS, so a market event and an
/// execution response never share a deadline. `0` = event yielded without any suspension (burst).
const MENU_QUICK: [u64; 3] = [1, 30, 250];
const MENU_THOROUGH: [u64; 4] = [0, 1, 30, 250];
const EXCHANGE: ExchangeId = ExchangeId::BinanceSpot;
const INSTRUMENTS: [(&str, &str, &str); 2] = [("btc_usdt", "BTCUSDT", "btc"), ("eth_usdt", "ETHUSDT", "eth")];
/// Prices by event position; positions 1 and 3 collide on purpose.
const PRICES: [f64; 4] = [100.0, 110.0, 90.0, 110.0];

fn t_event(i: usize) -> DateTime<Utc> {
    // Dataset timestamps one hour apart, strictly increasing: the wall-clock deltas that
    // `HistoricalClock` adds (micro- to milliseconds) can then never reorder two exchange timestamps.
    DateTime::<Utc>::from_timestamp(1_700_000_000, 0).unwrap() + TimeDelta::hours(i as i64)
}

// ------------------------------------------------------------------------------------------------
// Case description (replayable)
// ------------------------------------------------------------------------------------------------

#[derive(Debug, Clone, Copy, PartialEq, Eq, Hash, PartialOrd, Ord, Serialize, Deserialize)]
pub enum Strat {
    /// never sends an order
    Idle,
    /// buy 1 unit of the instrument of market event `buy` when the engine has seen `buy` market events,
    /// sell 1 unit of it when it has seen `sell` market events (`sell` = n+1: never)
    Trade { buy: usize, sell: usize },
}

#[derive(Debug, Clone, PartialEq, Eq, Hash, Serialize, Deserialize)]
pub enum Source {
    /// harness paced source: delays[i] before event i (i < n), delays[n] before end-of-stream
    Paced(Vec<u64>),
    /// the real `MarketDataInMemory`
    InMemory,
    /// harness paced source whose pacing differs per concurrent member: the k-th `stream()` call of a
    /// batch (= member k on the current-thread runtime) is paced with `delays[k]`
    PacedPerMember(Vec<Vec<u64>>),
}

#[derive(Debug, Clone, Serialize, Deserialize)]
pub struct Case {
    /// instrument (0/1) of each dataset event; length n
    pub instr: Vec<usize>,
    pub source: Source,
    /// strategies of the concurrent members (batch through `run_backtests`)
    pub members: Vec<Strat>,
    /// 0 = paused current-thread runtime (the deciding exploration); k > 0 = auxiliary smoke run on a
    /// real-time multi-thread runtime with k workers (only the timing-independent rules R1/R3 apply)
    #[serde(default)]
    pub mt_workers: usize,
    /// set when the violation was observed during the (multi-threaded) sweep but a serial re-run of the case
    /// alone in the process does not show it: the interference came from backtests running on OTHER threads
    /// (process-global state). Replay then re-runs the case under concurrent load.
    #[serde(default)]
    pub needs_parallel_context: bool,
}

// ------------------------------------------------------------------------------------------------
// Recording seams
// ------------------------------------------------------------------------------------------------

#[derive(Debug, Clone, PartialEq, Eq, Hash, Serialize)]
pub struct MEv {
    id: String,
    instrument: usize,
    price: String,
}

#[derive(Debug, Clone, PartialEq, Eq, Hash, Serialize)]
pub struct Fill {
    trade_id: String,
    order_id: String,
    instrument: usize,
    side: String,
    price: String,
    quantity: String,
    fee: String,
    /// exchange time of the fill in whole hours since the first dataset event. Dataset events are one hour
    /// apart and a backtest's clock sits a few wall-clock micro/milliseconds after the last market event
    /// ITS engine processed, so this is the index of that event - a coarse, timing-robust view of the
    /// timestamp that still shows a fill stamped by another backtest's clock.
    hour: i64,
}

/// `GlobalData` of the engine state: engine-local log of what the engine processed.
#[derive(Debug, Clone, Default)]
pub struct RecGlobal {
    market: Vec<MEv>,
    fills: Vec<Fill>,
    account_events: u64,
}

impl<'a> Processor<&'a MarketEvent<InstrumentIndex, DataKind>> for RecGlobal {
    type Audit = ();
    fn process(&mut self, event: &'a MarketEvent<InstrumentIndex, DataKind>) -> Self::Audit {
        let (id, price) = match &event.kind {
            DataKind::Trade(t) => (t.id.clone(), format!("{}", t.price)),
            other => ("?".to_string(), format!("{other:?}")),
        };
        self.market.push(MEv { id, instrument: event.instrument.index(), price });
    }
}

impl<'a> Processor<&'a AccountEvent> for RecGlobal {
    type Audit = ();
    fn process(&mut self, event: &'a AccountEvent) -> Self::Audit {
        self.account_events += 1;
        if let AccountEventKind::Trade(t) = &event.kind {
            self.fills.push(Fill {
                trade_id: t.id.0.to_string(),
                order_id: t.order_id.0.to_string(),
                instrument: t.instrument.index(),
                side: format!("{:?}", t.side),
                price: t.price.normalize().to_string(),
                quantity: t.quantity.normalize().to_string(),
                fee: t.fees.fees.normalize().to_string(),
                hour: t.time_exchange.signed_duration_since(t_event(0)).num_hours(),
            });
        }
    }
}

type St = EngineState<RecGlobal, DefaultInstrumentMarketData>;

/// What the strategy exports on every consultation (time-free view of its own engine's state).
#[derive(Debug, Clone, Default, PartialEq, Eq, Hash, Serialize)]
pub struct Record {
    calls: u64,
    market: Vec<MEv>,
    fills: Vec<Fill>,
    account_events: u64,
    /// per instrument: open position (side, quantity, entry price, realised pnl of the open position)
    positions: Vec<Option<(String, String, String, String)>>,
    /// per asset: (name, total, free)
    balances: Vec<(String, Option<(String, String)>)>,
    /// per instrument: realised PnL of exited positions (engine's own tear-sheet accumulator)
    pnl_realised: Vec<String>,
    orders_sent: Vec<String>,
    bought: Option<usize>,
}

#[derive(Debug, Clone)]
pub struct RecStrategy {
    plan: Strat,
    id: StrategyId,
    out: Arc<Mutex<Record>>,
}

fn d(x: Decimal) -> String {
    x.normalize().to_string()
}

impl AlgoStrategy for RecStrategy {
    type State = St;
    fn generate_algo_orders(
        &self,
        state: &Self::State,
    ) -> (
        impl IntoIterator<Item = OrderRequestCancel<ExchangeIndex, InstrumentIndex>>,
        impl IntoIterator<Item = OrderRequestOpen<ExchangeIndex, InstrumentIndex>>,
    ) {
        let mut out = self.out.lock().unwrap();
        // export the engine-local record
        out.calls += 1;
        out.market = state.global.market.clone();
        out.fills = state.global.fills.clone();
        out.account_events = state.global.account_events;
        out.positions = state
            .instruments
            .0
            .values()
            .map(|s| {
                s.position.current.as_ref().map(|p| {
                    (format!("{:?}", p.side), d(p.quantity_abs), d(p.price_entry_average), d(p.pnl_realised))
                })
            })
            .collect();
        out.balances = state
            .assets
            .0
            .iter()
            .map(|(k, s)| {
                (
                    format!("{}", k.asset.as_ref()),
                    s.balance.as_ref().map(|b| (d(b.value.total), d(b.value.free))),
                )
            })
            .collect();
        out.pnl_realised = state.instruments.0.values().map(|s| d(s.tear_sheet.pnl_returns.pnl_raw)).collect();

        // decide (function of the number of market events seen only)
        let seen = state.global.market.len();
        let mut opens = Vec::new();
        if let Strat::Trade { buy, sell } = self.plan {
            let mk = |instrument: usize, side: Side, cid: String, price: Decimal| OrderRequestOpen {
                key: OrderKey {
                    exchange: ExchangeIndex(0),
                    instrument: InstrumentIndex(instrument),
                    strategy: self.id.clone(),
                    cid: ClientOrderId::new(cid),
                },
                state: RequestOpen {
                    side,
                    price,
                    quantity: Decimal::ONE,
                    kind: OrderKind::Market,
                    time_in_force: TimeInForce::ImmediateOrCancel,
                },
            };
            let price_of = |instrument: usize| {
                use barter::engine::state::instrument::data::InstrumentDataState;
                state.instruments.instrument_index(&InstrumentIndex(instrument)).data.price()
            };
            if seen == buy && out.bought.is_none() {
                let instrument = state.global.market[seen - 1].instrument;
                if let Some(price) = price_of(instrument) {
                    out.bought = Some(instrument);
                    out.orders_sent.push(format!("buy@{seen}"));
                    opens.push(mk(instrument, Side::Buy, format!("b{buy}"), price));
                }
            }
            if seen == sell && !out.orders_sent.iter().any(|o| o.starts_with("sell")) {
                if let Some(instrument) = out.bought {
                    if let Some(price) = price_of(instrument) {
                        out.orders_sent.push(format!("sell@{seen}"));
                        opens.push(mk(instrument, Side::Sell, format!("s{sell}"), price));
                    }
                }
            }
        }
        (Vec::<OrderRequestCancel<ExchangeIndex, InstrumentIndex>>::new(), opens)
    }
}

impl ClosePositionsStrategy for RecStrategy {
    type State = St;
    fn close_positions_requests<'a>(
        &'a self,
        _: &'a Self::State,
        _: &'a InstrumentFilter<ExchangeIndex, AssetIndex, InstrumentIndex>,
    ) -> (
        impl IntoIterator<Item = OrderRequestCancel<ExchangeIndex, InstrumentIndex>> + 'a,
        impl IntoIterator<Item = OrderRequestOpen<ExchangeIndex, InstrumentIndex>> + 'a,
    )
    where
        ExchangeIndex: 'a,
        AssetIndex: 'a,
        InstrumentIndex: 'a,
    {
        (std::iter::empty(), std::iter::empty())
    }
}

impl<C, S, T, R> OnDisconnectStrategy<C, S, T, R> for RecStrategy {
    type OnDisconnect = ();
    fn on_disconnect(_: &mut Engine<C, S, T, Self, R>, _: ExchangeId) -> Self::OnDisconnect {}
}

impl<C, S, T, R> OnTradingDisabled<C, S, T, R> for RecStrategy {
    type OnTradingDisabled = ();
    fn on_trading_disabled(_: &mut Engine<C, S, T, Self, R>) -> Self::OnTradingDisabled {}
}

// ------------------------------------------------------------------------------------------------
// Market data sources
// ------------------------------------------------------------------------------------------------

type MEvent = MarketStreamEvent<InstrumentIndex, DataKind>;

#[derive(Debug, Clone)]
pub enum Data {
    Paced { events: Arc<Vec<MEvent>>, delays: Arc<Vec<u64>> },
    InMemory(MarketDataInMemory<DataKind>),
    PacedMulti { events: Arc<Vec<MEvent>>, delays: Arc<Vec<Vec<u64>>>, next: Arc<std::sync::atomic::AtomicUsize> },
}

impl BacktestMarketData for Data {
    type Kind = DataKind;

    async fn time_first_event(&self) -> Result<DateTime<Utc>, BarterError> {
        match self {
            Data::Paced { .. } | Data::PacedMulti { .. } => Ok(t_event(0)),
            Data::InMemory(m) => m.time_first_event().await,
        }
    }

    async fn stream(&self) -> Result<impl Stream<Item = MEvent> + Send + 'static, BarterError> {
        let s: BoxStream<'static, MEvent> = match self {
            Data::Paced { events, delays } => {
                let events = Arc::clone(events);
                let delays = Arc::clone(delays);
                futures::stream::unfold(0usize, move |i| {
                    let events = Arc::clone(&events);
                    let delays = Arc::clone(&delays);
                    async move {
                        let w = delays[i];
                        if w > 0 {
                            tokio::time::sleep(std::time::Duration::from_millis(w)).await;
                        }
                        if i < events.len() { Some((events[i].clone(), i + 1)) } else { None }
                    }
                })
                .boxed()
            }
            Data::InMemory(m) => m.stream().await?.boxed(),
            Data::PacedMulti { events, delays, next } => {
                let k = next.fetch_add(1, Ordering::SeqCst);
                let events = Arc::clone(events);
                let delays = Arc::new(delays[k % delays.len()].clone());
                futures::stream::unfold(0usize, move |i| {
                    let events = Arc::clone(&events);
                    let delays = Arc::clone(&delays);
                    async move {
                        let w = delays[i];
                        if w > 0 {
                            tokio::time::sleep(std::time::Duration::from_millis(w)).await;
                        }
                        if i < events.len() { Some((events[i].clone(), i + 1)) } else { None }
                    }
                })
                .boxed()
            }
        };
        Ok(s)
    }
}

fn dataset(instr: &[usize]) -> Vec<MEvent> {
    instr
        .iter()
        .enumerate()
        .map(|(i, inst)| {
            MarketStreamEvent::Item(MarketEvent {
                time_exchange: t_event(i),
                time_received: t_event(i),
                exchange: EXCHANGE,
                instrument: InstrumentIndex(*inst),
                kind: DataKind::Trade(PublicTrade {
                    id: format!("e{}", i + 1),
                    price: PRICES[i % PRICES.len()],
                    amount: 1.0,
                    side: if i % 2 == 0 { Side::Buy } else { Side::Sell },
                }),
            })
        })
        .collect()
}

fn expected_log(instr: &[usize]) -> Vec<MEv> {
    instr
        .iter()
        .enumerate()
        .map(|(i, inst)| MEv { id: format!("e{}", i + 1), instrument: *inst, price: format!("{}", PRICES[i % PRICES.len()]) })
        .collect()
}

// ------------------------------------------------------------------------------------------------
// Running the real backtests
// ------------------------------------------------------------------------------------------------

/// Time-free view of a returned `BacktestSummary`.
#[derive(Debug, Clone, PartialEq, Eq, Hash, Serialize)]
pub struct SummaryView {
    id: String,
    risk_free_return: String,
    /// per instrument: (pnl, win rate, profit factor)
    instruments: Vec<(String, Option<String>, Option<String>)>,
    /// per asset: end balance (total, free)
    assets: Vec<Option<(String, String)>>,
}

#[derive(Debug, Clone, PartialEq, Eq, Hash, Serialize)]
pub struct MemberOutcome {
    record: Record,
    /// the returned summary carrying this member's id (None: no such summary / several / wrong count)
    summary: Option<SummaryView>,
    summary_ids: Vec<String>,
}

impl MemberOutcome {
    /// what is counted as a distinct observed outcome: the record and the summary without identity fields
    fn essence(&self) -> (&Record, Option<(&Vec<(String, Option<String>, Option<String>)>, &Vec<Option<(String, String)>>)>) {
        (&self.record, self.summary.as_ref().map(|s| (&s.instruments, &s.assets)))
    }
}

fn summary_view(s: &BacktestSummary<Daily>) -> SummaryView {
    SummaryView {
        id: s.id.to_string(),
        risk_free_return: d(s.risk_free_return),
        instruments: s
            .trading_summary
            .instruments
            .values()
            .map(|t| (d(t.pnl), t.win_rate.as_ref().map(|w| d(w.value)), t.profit_factor.as_ref().map(|p| d(p.value))))
            .collect(),
        assets: s
            .trading_summary
            .assets
            .values()
            .map(|a| a.balance_end.map(|b| (d(b.total), d(b.free))))
            .collect(),
    }
}

type Args = Arc<BacktestArgsConstant<Data, Daily, St>>;
type Dynamic = BacktestArgsDynamic<RecStrategy, DefaultRiskManager<St>>;

fn member_id(i: usize) -> String {
    format!("m{i}")
}
fn member_rfr(i: usize) -> Decimal {
    dec!(0.01) * Decimal::from(i as u64 + 1)
}

fn constants(instr: &[usize], source: &Source, latency_ms: u64) -> Args {
    let instruments = IndexedInstruments::new(INSTRUMENTS.iter().map(|(internal, name_ex, base)| {
        Instrument::spot(EXCHANGE, *internal, *name_ex, Underlying::new(*base, "usdt"), None)
    }));
    let events = Arc::new(dataset(instr));
    let market_data = match source {
        Source::Paced(delays) => {
            assert_eq!(delays.len(), instr.len() + 1, "pacing vector has n+1 entries");
            Data::Paced { events, delays: Arc::new(delays.clone()) }
        }
        Source::InMemory => Data::InMemory(MarketDataInMemory::new(events)),
        Source::PacedPerMember(delays) => {
            assert!(delays.iter().all(|d| d.len() == instr.len() + 1), "pacing vectors have n+1 entries");
            Data::PacedMulti { events, delays: Arc::new(delays.clone()), next: Arc::new(std::sync::atomic::AtomicUsize::new(0)) }
        }
    };
    let balance = |asset: &str, amount: Decimal| AssetBalance {
        asset: AssetNameExchange::new(asset),
        balance: Balance::new(amount, amount),
        time_exchange: t_event(0),
    };
    let executions = vec![ExecutionConfig::Mock(MockExecutionConfig {
        mocked_exchange: EXCHANGE,
        initial_state: UnindexedAccountSnapshot {
            exchange: EXCHANGE,
            balances: vec![balance("usdt", dec!(100000)), balance("btc", dec!(10)), balance("eth", dec!(10))],
            instruments: INSTRUMENTS
                .iter()
                .map(|(_, name_ex, _)| InstrumentAccountSnapshot {
                    instrument: InstrumentNameExchange::new(*name_ex),
                    orders: vec![],
                })
                .collect(),
        },
        latency_ms,
        fees_percent: dec!(0.01),
    })];
    let engine_state = EngineState::builder(&instruments, RecGlobal::default(), DefaultInstrumentMarketData::default)
        .time_engine_start(t_event(0))
        .trading_state(TradingState::Enabled)
        .build();
    Arc::new(BacktestArgsConstant { instruments, executions, market_data, summary_interval: Daily, engine_state })
}

fn dynamic(i: usize, plan: Strat) -> (Dynamic, Arc<Mutex<Record>>) {
    let out = Arc::new(Mutex::new(Record::default()));
    (
        BacktestArgsDynamic {
            id: SmolStr::new(member_id(i)),
            risk_free_return: member_rfr(i),
            strategy: RecStrategy { plan, id: StrategyId::new("c20"), out: Arc::clone(&out) },
            risk: DefaultRiskManager::default(),
        },
        out,
    )
}

#[derive(Debug, Clone, Copy, PartialEq)]
enum Mode {
    /// direct `backtest()` (single member)
    Alone,
    /// `run_backtests()` over all members
    Batch,
}

/// Execute the real code once. Err(kind) = the backtest returned an error or panicked.
fn execute(instr: &[usize], source: &Source, members: &[Strat], mode: Mode) -> Result<Vec<MemberOutcome>, (String, String)> {
    execute_on(instr, source, members, mode, 0)
}

/// Real-time latency of the mock exchange in the multi-thread smoke runs (ms).
const MT_LATENCY_MS: u64 = 4;

fn execute_on(instr: &[usize], source: &Source, members: &[Strat], mode: Mode, mt_workers: usize) -> Result<Vec<MemberOutcome>, (String, String)> {
    let args = constants(instr, source, if mt_workers == 0 { LATENCY_MS } else { MT_LATENCY_MS });
    let (dyns, outs): (Vec<_>, Vec<_>) = members.iter().enumerate().map(|(i, s)| dynamic(i, *s)).unzip();
    let result = std::panic::catch_unwind(std::panic::AssertUnwindSafe(|| {
        let rt = if mt_workers == 0 {
            paused_rt()
        } else {
            tokio::runtime::Builder::new_multi_thread().worker_threads(mt_workers).enable_time().build().expect("tokio runtime")
        };
        let r = rt.block_on(async move {
            match mode {
                Mode::Alone => {
                    let mut dyns = dyns;
                    backtest(args, dyns.remove(0)).await.map(|s| vec![s])
                }
                Mode::Batch => run_backtests(args, dyns).await.map(|m| m.summaries),
            }
        });
        drop(rt);
        r
    }));
    let summaries = match result {
        Err(_) => return Err(("panic".into(), "backtest panicked".into())),
        Ok(Err(e)) => {
            let text = format!("{e:?}");
            let kind: String = text.chars().take_while(|c| c.is_ascii_alphanumeric()).collect();
            return Err((kind, text));
        }
        Ok(Ok(s)) => s,
    };
    // `run_backtests` does not promise an order of the summaries: match them to the members by id.
    let views: Vec<SummaryView> = summaries.iter().map(summary_view).collect();
    Ok(outs
        .iter()
        .enumerate()
        .map(|(i, o)| {
            let mine: Vec<&SummaryView> = views.iter().filter(|v| v.id == member_id(i)).collect();
            MemberOutcome {
                record: o.lock().unwrap().clone(),
                summary: if mine.len() == 1 && views.len() == members.len() { Some(mine[0].clone()) } else { None },
                summary_ids: views.iter().map(|v| v.id.clone()).collect(),
            }
        })
        .collect())
}

// ------------------------------------------------------------------------------------------------
// Oracles
// ------------------------------------------------------------------------------------------------

type Viol = (String, String);

fn source_kind(s: &Source) -> &'static str {
    match s {
        Source::Paced(_) => "paced",
        Source::InMemory => "in-memory",
        Source::PacedPerMember(_) => "paced-per-member",
    }
}

/// R1: the engine-local market log equals the dataset.
fn rule_completeness(want: &[MEv], got: &[MEv], source: &Source, ctxs: &str, out: &mut Vec<Viol>) {
    if want == got {
        return;
    }
    let ids = |v: &[MEv]| v.iter().map(|e| e.id.clone()).collect::<Vec<_>>();
    let (w, g) = (ids(want), ids(got));
    let gset: HashSet<&String> = g.iter().collect();
    let cause = if g.len() != gset.len() {
        "event-delivered-more-than-once"
    } else if g.iter().any(|x| !w.contains(x)) {
        "foreign-event"
    } else if g.len() < w.len() && w[..g.len()] == g[..] {
        "tail-not-delivered-before-shutdown"
    } else if g.len() < w.len() && w[w.len() - g.len()..] == g[..] {
        "head-skipped"
    } else if g.len() < w.len() {
        "events-skipped"
    } else if w != g {
        "out-of-dataset-order"
    } else {
        "event-content-changed"
    };
    out.push((
        format!("C20/R1-completeness-order/{cause}/{}-source", source_kind(source)),
        format!("{ctxs}: engine saw {:?}, dataset is {:?}", got, want),
    ));
}

/// R3 (own part): summary identity and consistency with the record of the same engine.
fn rule_own_summary(i: usize, o: &MemberOutcome, ctxs: &str, out: &mut Vec<Viol>) {
    let Some(summary) = &o.summary else {
        out.push((
            "C20/R3-own-summary/not-exactly-one-summary-with-own-id".into(),
            format!("{ctxs}: member {i} (id {}) : returned summary ids {:?}", member_id(i), o.summary_ids),
        ));
        return;
    };
    if summary.risk_free_return != d(member_rfr(i)) {
        out.push((
            "C20/R3-own-summary/risk-free-return-of-another-backtest".into(),
            format!("{ctxs}: member {i} summary.risk_free_return={} own={}", summary.risk_free_return, d(member_rfr(i))),
        ));
    }
    if o.record.calls == 0 {
        return; // engine never consulted the strategy: nothing exported (R1 reports it)
    }
    let pnl: Vec<String> = summary.instruments.iter().map(|t| t.0.clone()).collect();
    if pnl != o.record.pnl_realised {
        out.push((
            "C20/R3-own-summary/pnl-differs-from-own-engine".into(),
            format!("{ctxs}: member {i} summary pnl per instrument {:?}, its engine's realised pnl {:?}", pnl, o.record.pnl_realised),
        ));
    }
    let bal_rec: Vec<Option<(String, String)>> = o.record.balances.iter().map(|b| b.1.clone()).collect();
    if summary.assets != bal_rec {
        out.push((
            "C20/R3-own-summary/end-balance-differs-from-own-engine".into(),
            format!("{ctxs}: member {i} summary end balances {:?}, its engine's balances {:?}", summary.assets, o.record.balances),
        ));
    }
}

/// R2: differential comparison of one member with the reference (same strategy alone). Only the FIRST
/// differing field (in causal order: fills -> positions -> balances -> realised PnL -> summary) is reported,
/// so one defect gives one signature per comparison kind rather than one per derived quantity.
fn rule_isolation(prefix: &str, got: &MemberOutcome, reference: &MemberOutcome, ctxs: &str, out: &mut Vec<Viol>) {
    let strip = |v: &[Fill]| {
        v.iter().map(|f| (f.instrument, f.side.clone(), f.price.clone(), f.quantity.clone(), f.fee.clone())).collect::<Vec<_>>()
    };
    let (g, r) = (&got.record, &reference.record);
    let found: Option<(&str, String, String)> = if g.fills != r.fills {
        // exchange-assigned ids are part of a fill, but a difference in ids only gets its own cause
        let no_hour = |v: &[Fill]| v.iter().map(|f| Fill { hour: 0, ..f.clone() }).collect::<Vec<_>>();
        let field = if no_hour(&g.fills) == no_hour(&r.fills) {
            "fill-exchange-times"
        } else if strip(&g.fills) == strip(&r.fills) {
            "fill-ids"
        } else {
            "fills"
        };
        Some((field, format!("{:?}", g.fills), format!("{:?}", r.fills)))
    } else if g.positions != r.positions {
        Some(("final-positions", format!("{:?}", g.positions), format!("{:?}", r.positions)))
    } else if g.balances != r.balances {
        Some(("balances", format!("{:?}", g.balances), format!("{:?}", r.balances)))
    } else if g.pnl_realised != r.pnl_realised {
        Some(("realised-pnl", format!("{:?}", g.pnl_realised), format!("{:?}", r.pnl_realised)))
    } else {
        match (&got.summary, &reference.summary) {
            // summary of that engine alone (identity fields are per member, checked by R3)
            (Some(a), Some(b)) if (&a.instruments, &a.assets) != (&b.instruments, &b.assets) => {
                Some(("summary", format!("{a:?}"), format!("{b:?}")))
            }
            _ => None,
        }
    };
    if let Some((field, a, b)) = found {
        out.push((format!("C20/{prefix}/{field}-differ"), format!("{ctxs}: {field}: got {a} reference(alone) {b}")));
    }
}

/// Per-run statistics for non-vacuity.
#[derive(Default)]
struct Stats {
    executions: AtomicU64,
    backtests: AtomicU64,
    batch_runs: AtomicU64,
    members_with_fills: AtomicU64,
    members_round_trip: AtomicU64,
    members_open_position: AtomicU64,
    members_fill_cut_by_shutdown: AtomicU64,
    oracle_evals: AtomicU64,
}

impl Stats {
    fn note(&self, o: &MemberOutcome) {
        self.backtests.fetch_add(1, Ordering::Relaxed);
        if !o.record.fills.is_empty() {
            self.members_with_fills.fetch_add(1, Ordering::Relaxed);
        }
        if o.record.pnl_realised.iter().any(|p| p != "0") {
            self.members_round_trip.fetch_add(1, Ordering::Relaxed);
        }
        if o.record.positions.iter().any(|p| p.is_some()) {
            self.members_open_position.fetch_add(1, Ordering::Relaxed);
        }
        if o.record.orders_sent.len() > o.record.fills.len() {
            self.members_fill_cut_by_shutdown.fetch_add(1, Ordering::Relaxed);
        }
    }
}

/// Reference run of one strategy alone (twice: reproducibility is part of R2). Returns the first outcome.
fn reference(instr: &[usize], source: &Source, s: Strat, stats: &Stats, distinct: &Distinct, out: &mut Vec<Viol>) -> Option<MemberOutcome> {
    let ctxs = format!("alone instr={instr:?} source={source:?} strategy={s:?}");
    let mut runs = Vec::new();
    for _ in 0..2 {
        stats.executions.fetch_add(1, Ordering::Relaxed);
        match execute(instr, source, &[s], Mode::Alone) {
            Ok(mut v) => runs.push(v.remove(0)),
            Err((kind, text)) => {
                out.push((format!("C20/R1-completeness-order/backtest-failed/{kind}"), format!("{ctxs}: {text}")));
                return None;
            }
        }
    }
    let first = runs.remove(0);
    stats.note(&first);
    distinct.add(&first.essence());
    stats.oracle_evals.fetch_add(3, Ordering::Relaxed);
    rule_completeness(&expected_log(instr), &first.record.market, source, &ctxs, out);
    rule_own_summary(0, &first, &ctxs, out);
    rule_isolation("R2-isolation-sequential-runs", &runs[0], &first, &ctxs, out);
    Some(first)
}

/// Evaluate one batch against the references.
fn check_batch(instr: &[usize], source: &Source, members: &[Strat], refs: &BTreeMap<Strat, MemberOutcome>, stats: &Stats, distinct: &Distinct, out: &mut Vec<Viol>) {
    let ctxs = format!("batch instr={instr:?} source={source:?} members={members:?}");
    stats.executions.fetch_add(1, Ordering::Relaxed);
    stats.batch_runs.fetch_add(1, Ordering::Relaxed);
    let outcomes = match execute(instr, source, members, Mode::Batch) {
        Ok(v) => v,
        Err((kind, text)) => {
            out.push((format!("C20/R1-completeness-order/backtest-failed/{kind}"), format!("{ctxs}: {text}")));
            return;
        }
    };
    let want = expected_log(instr);
    for (i, o) in outcomes.iter().enumerate() {
        stats.note(o);
        distinct.add(&o.essence());
        stats.oracle_evals.fetch_add(3, Ordering::Relaxed);
        let c = format!("{ctxs} member={i}");
        rule_completeness(&want, &o.record.market, source, &c, out);
        rule_own_summary(i, o, &c, out);
        if let Some(r) = refs.get(&members[i]) {
            rule_isolation("R2-isolation-concurrent", o, r, &c, out);
        }
    }
}

// ------------------------------------------------------------------------------------------------
// Enumeration
// ------------------------------------------------------------------------------------------------

fn strategies(n: usize) -> Vec<Strat> {
    let mut v = vec![Strat::Idle];
    for buy in 1..=n {
        for sell in buy + 1..=n + 1 {
            v.push(Strat::Trade { buy, sell });
        }
    }
    v
}

fn product<T: Clone>(menu: &[T], len: usize) -> Vec<Vec<T>> {
    let mut acc: Vec<Vec<T>> = vec![vec![]];
    for _ in 0..len {
        acc = acc
            .into_iter()
            .flat_map(|p| {
                menu.iter().map(move |m| {
                    let mut q = p.clone();
                    q.push(m.clone());
                    q
                })
            })
            .collect();
    }
    acc
}

fn case_of(instr: &[usize], source: &Source, members: &[Strat]) -> Case {
    Case { instr: instr.to_vec(), source: source.clone(), members: members.to_vec(), mt_workers: 0, needs_parallel_context: false }
}

fn case_json(instr: &[usize], source: &Source, members: &[Strat]) -> Value {
    serde_json::to_value(Case { instr: instr.to_vec(), source: source.clone(), members: members.to_vec(), mt_workers: 0, needs_parallel_context: false }).unwrap()
}



/// Violation candidates found by the parallel sweep: per signature the occurrence count and the few
/// smallest cases for each member count. After the sweep each signature's candidates are re-run SERIALLY
/// (nothing else running in the process) and the smallest case that reproduces the signature on its own is
/// retained as the replay artefact; see `Case::needs_parallel_context` for the other situation.
#[derive(Default)]
struct Candidates {
    inner: Mutex<BTreeMap<String, (u64, Vec<((usize, String), String, Case)>)>>,
}

impl Candidates {
    const KEEP_PER_MEMBER_COUNT: usize = 3;
    fn report(&self, sig: String, detail: String, case: Case) {
        let text = serde_json::to_string(&case).unwrap();
        let rank = (text.len(), text);
        let mut g = self.inner.lock().unwrap();
        let e = g.entry(sig).or_insert_with(|| (0, Vec::new()));
        e.0 += 1;
        let same_n = e.1.iter().filter(|c| c.2.members.len() == case.members.len()).count();
        if same_n < Self::KEEP_PER_MEMBER_COUNT {
            e.1.push((rank, detail, case));
        } else if let Some(worst) = e
            .1
            .iter_mut()
            .filter(|c| c.2.members.len() == case.members.len())
            .max_by(|a, b| a.0.cmp(&b.0))
        {
            if rank < worst.0 {
                *worst = (rank, detail, case);
            }
        }
    }
}

/// The complete check of one case, serially: references (alone, twice) for every distinct member strategy,
/// then the batch. This is what `replay` executes.
fn check_case_serial(case: &Case, verbose: bool) -> Vec<Viol> {
    let stats = Stats::default();
    let distinct = Distinct::default();
    let mut out = Vec::new();
    if let Source::PacedPerMember(delays) = &case.source {
        check_hetero(&case.instr, delays, &case.members, &stats, &distinct, &mut out);
        return out;
    }
    let mut refs = BTreeMap::new();
    for s in case.members.iter().collect::<std::collections::BTreeSet<_>>() {
        if let Some(r) = reference(&case.instr, &case.source, *s, &stats, &distinct, &mut out) {
            if verbose {
                println!("reference alone {s:?}: {}", serde_json::to_string(&r).unwrap());
            }
            refs.insert(*s, r);
        }
    }
    check_batch(&case.instr, &case.source, &case.members, &refs, &stats, &distinct, &mut out);
    out
}

/// The same check under concurrent load: 4 threads repeat the case while 4 threads keep running a trading
/// "noisy neighbour" batch (each execution on its own runtime) — the situation of the parallel sweep.
fn check_case_under_load(case: &Case) -> Vec<Viol> {
    let out = Mutex::new(Vec::new());
    let done = std::sync::atomic::AtomicBool::new(false);
    let neighbour_members = [Strat::Trade { buy: 1, sell: 2 }, Strat::Trade { buy: 2, sell: 3 }];
    std::thread::scope(|sc| {
        for _ in 0..4 {
            sc.spawn(|| {
                while !done.load(Ordering::SeqCst) {
                    let _ = execute(&[0, 1], &Source::Paced(vec![1, 250, 250]), &neighbour_members, Mode::Batch);
                }
            });
        }
        let checkers: Vec<_> = (0..4)
            .map(|_| {
                sc.spawn(|| {
                    for _ in 0..40 {
                        let v = check_case_serial(case, false);
                        out.lock().unwrap().extend(v);
                    }
                })
            })
            .collect();
        for c in checkers {
            let _ = c.join();
        }
        done.store(true, Ordering::SeqCst);
    });
    out.into_inner().unwrap()
}

/// Serial search of the small cases (n <= 2, quick menu, N <= 2) for one that shows `sig` on its own. Used only
/// when none of the sweep's candidates for `sig` reproduces serially.
fn serial_search(sig: &str) -> Option<(String, Case)> {
    for n in 1..=2usize {
        let strats = strategies(n);
        for instr in product(&[0usize, 1usize], n) {
            let mut sources: Vec<Source> = product(&MENU_QUICK, n + 1).into_iter().map(Source::Paced).collect();
            sources.push(Source::InMemory);
            for source in &sources {
                for members_n in 1..=2usize {
                    for members in product(&strats, members_n) {
                        let case = case_of(&instr, source, &members);
                        if let Some(v) = check_case_serial(&case, false).into_iter().find(|v| v.0 == sig) {
                            return Some((v.1, case));
                        }
                    }
                }
            }
        }
    }
    None
}

/// Auxiliary, NON-exhaustive smoke run on a real-time multi-thread runtime (the OS-thread interleavings of
/// tokio's scheduler cannot be enumerated from outside). Only the rules that hold for every schedule are
/// evaluated (R1 completeness/order, R3 summary is its own engine's); R2 is not (real-time races between
/// pacing and latency legitimately change which fills arrive before Shutdown).
fn check_mt_smoke(instr: &[usize], source: &Source, members: &[Strat], workers: usize, out: &mut Vec<Viol>) -> u64 {
    let ctxs = format!("mt-smoke workers={workers} instr={instr:?} source={source:?} members={members:?}");
    let outcomes = match execute_on(instr, source, members, Mode::Batch, workers) {
        Ok(v) => v,
        Err((kind, text)) => {
            out.push((format!("C20/mt-smoke/R1-completeness-order/backtest-failed/{kind}"), format!("{ctxs}: {text}")));
            return 0;
        }
    };
    let want = expected_log(instr);
    let mut local = Vec::new();
    for (i, o) in outcomes.iter().enumerate() {
        let c = format!("{ctxs} member={i}");
        rule_completeness(&want, &o.record.market, source, &c, &mut local);
        rule_own_summary(i, o, &c, &mut local);
    }
    out.extend(local.into_iter().map(|(sig, det)| (sig.replacen("C20/", "C20/mt-smoke/", 1), det)));
    outcomes.iter().filter(|o| !o.record.fills.is_empty()).count() as u64
}

fn mt_smoke(ctx: &Ctx) -> Value {
    let workers = 4usize;
    let n = 3usize;
    let strats = strategies(n);
    let patterns: Vec<Vec<usize>> = vec![vec![0, 1, 0], vec![1, 1, 0]];
    // real-time pacings (ms); the tail of the last one lets responses (latency 4 ms) land before Shutdown
    let sources = vec![Source::InMemory, Source::Paced(vec![0, 0, 0, 0]), Source::Paced(vec![1, 0, 1, 0]), Source::Paced(vec![6, 6, 6, 12])];
    // member triples: every strategy appears, neighbours differ; `stride` thins the list in the quick tier
    let stride = ctx.tier.pick(3usize, 1usize);
    let triples: Vec<Vec<Strat>> = (0..strats.len())
        .step_by(stride)
        .map(|i| vec![strats[i], strats[(i + 1) % strats.len()], strats[(i + 3) % strats.len()]])
        .collect();
    let mut runs = 0u64;
    let mut members_with_fills = 0u64;
    let mut sigs = Vec::new();
    for instr in &patterns {
        for source in &sources {
            for members in &triples {
                let mut out = Vec::new();
                members_with_fills += check_mt_smoke(instr, source, members, workers, &mut out);
                runs += 1;
                for (sig, detail) in out {
                    sigs.push(sig.clone());
                    let mut case = Case { instr: instr.clone(), source: source.clone(), members: members.clone(), mt_workers: workers, needs_parallel_context: false };
                    ctx.violate(sig, detail, serde_json::to_value(&case).unwrap());
                    case.mt_workers = workers;
                }
            }
        }
    }
    sigs.sort();
    sigs.dedup();
    json!({
        "non_exhaustive": true,
        "decides_property": false,
        "runtime": format!("multi-thread, {workers} workers, real time"),
        "batch_runs": runs,
        "members_with_fills": members_with_fills,
        "rules": "R1 completeness/order and R3 own-summary only (timing independent)",
        "violation_signatures": sigs,
    })
}

/// Long datasets. The exhaustive sweep in `run` never exceeds 4 events, so defects that depend on the
/// dataset *length* (chunking, batching, buffer boundaries) are out of its reach. This layer (a) pulls
/// the real `MarketDataInMemory::stream` for EVERY dataset length 1..=L and compares the yielded events
/// with the dataset, and (b) runs the whole real `backtest()` (in-memory source, idle strategy and one
/// trading strategy) at lengths around powers of two and checks the engine's market log (rule R1).
fn long_datasets(ctx: &Ctx) -> Value {
    use rayon::prelude::*;
    let lmax = ctx.tier.pick(2600usize, 9000usize);
    let src = Source::InMemory;
    let stream_violations: Vec<(usize, Vec<Viol>)> = (1..=lmax)
        .into_par_iter()
        .filter_map(|n| {
            let instr: Vec<usize> = (0..n).map(|i| i % 2).collect();
            let data = MarketDataInMemory::new(Arc::new(dataset(&instr)));
            let got: Vec<MEv> = futures::executor::block_on(async {
                match data.stream().await {
                    Ok(s) => s
                        .filter_map(|e| async move {
                            match e {
                                MarketStreamEvent::Item(ev) => match &ev.kind {
                                    DataKind::Trade(t) => Some(MEv { id: t.id.clone(), instrument: ev.instrument.index(), price: format!("{}", t.price) }),
                                    _ => None,
                                },
                                _ => None,
                            }
                        })
                        .collect::<Vec<_>>()
                        .await,
                    Err(_) => vec![],
                }
            });
            let mut out = Vec::new();
            rule_completeness(&expected_log(&instr), &got, &src, &format!("MarketDataInMemory::stream of a {n}-event dataset"), &mut out);
            // the detail of a long dataset is huge: keep only the head of it
            let out: Vec<Viol> = out.into_iter().map(|(s, d)| (format!("{s}/long-dataset"), d.chars().take(300).collect())).collect();
            if out.is_empty() { None } else { Some((n, out)) }
        })
        .collect();
    let mut first_bad_len = None;
    for (n, viols) in &stream_violations {
        if first_bad_len.is_none() {
            first_bad_len = Some(*n);
        }
        let instr: Vec<usize> = (0..*n).map(|i| i % 2).collect();
        for (sig, detail) in viols {
            // only the shortest failing length carries the (large) replay case
            if Some(*n) == first_bad_len {
                ctx.violate(sig.clone(), format!("dataset length {n}: {detail}"), case_json(&instr, &src, &[Strat::Idle]));
            } else {
                ctx.violations.bump(sig);
            }
        }
    }
    let lengths: Vec<usize> = if ctx.tier == crate::core::Tier::Thorough {
        vec![255, 256, 257, 1023, 1024, 1025, 2047, 2048, 2049, 4096, 4097, 8193]
    } else {
        vec![1023, 1024, 1025, 2049]
    };
    let whole: Vec<(usize, Vec<Viol>)> = lengths
        .par_iter()
        .map(|&n| {
            let instr: Vec<usize> = (0..n).map(|i| i % 2).collect();
            let mut out = Vec::new();
            for strat in [Strat::Idle, Strat::Trade { buy: 1, sell: n }] {
                let ctxs = format!("alone, {n}-event in-memory dataset, strategy={strat:?}");
                match execute(&instr, &src, &[strat], Mode::Alone) {
                    Ok(v) => rule_completeness(&expected_log(&instr), &v[0].record.market, &src, &ctxs, &mut out),
                    Err((kind, text)) => out.push((format!("C20/R1-completeness-order/backtest-failed/{kind}"), format!("{ctxs}: {text}"))),
                }
            }
            (n, out.into_iter().map(|(s, d)| (format!("{s}/long-dataset"), d.chars().take(300).collect::<String>())).collect())
        })
        .collect();
    for (n, viols) in &whole {
        let instr: Vec<usize> = (0..*n).map(|i| i % 2).collect();
        for (sig, detail) in viols {
            ctx.violate(sig.clone(), format!("dataset length {n}: {detail}"), case_json(&instr, &src, &[Strat::Idle]));
        }
    }
    json!({
        "in_memory_stream_lengths_checked": format!("every length 1..={lmax}"),
        "in_memory_stream_events_compared": (lmax * (lmax + 1) / 2),
        "whole_backtest_lengths": lengths,
        "whole_backtests_run": lengths.len() * 2,
    })
}

/// One batch whose members are paced differently, each compared with itself run alone under its own pacing.
fn check_hetero(instr: &[usize], delays: &[Vec<u64>], members: &[Strat], stats: &Stats, distinct: &Distinct, out: &mut Vec<Viol>) {
    let source = Source::PacedPerMember(delays.to_vec());
    let ctxs = format!("batch instr={instr:?} per-member pacing={delays:?} members={members:?}");
    stats.executions.fetch_add(1, Ordering::Relaxed);
    stats.batch_runs.fetch_add(1, Ordering::Relaxed);
    let outcomes = match execute(instr, &source, members, Mode::Batch) {
        Ok(v) => v,
        Err((kind, text)) => {
            out.push((format!("C20/R1-completeness-order/backtest-failed/{kind}"), format!("{ctxs}: {text}")));
            return;
        }
    };
    let want = expected_log(instr);
    for (i, o) in outcomes.iter().enumerate() {
        stats.note(o);
        distinct.add(&o.essence());
        let c = format!("{ctxs} member={i}");
        rule_completeness(&want, &o.record.market, &source, &c, out);
        rule_own_summary(i, o, &c, out);
        stats.executions.fetch_add(1, Ordering::Relaxed);
        match execute(instr, &Source::Paced(delays[i].clone()), &[members[i]], Mode::Alone) {
            Ok(mut alone) => {
                stats.oracle_evals.fetch_add(3, Ordering::Relaxed);
                let mut tmp = Vec::new();
                rule_isolation("R2-isolation-concurrent", o, &alone.remove(0), &c, &mut tmp);
                out.extend(tmp.into_iter().map(|(s, d)| (format!("{s}/members-paced-differently"), d)));
            }
            Err((kind, text)) => out.push((format!("C20/R1-completeness-order/backtest-failed/{kind}"), format!("{c} alone: {text}"))),
        }
    }
}

/// Heterogeneous pacing: concurrent members that are NOT in lock-step (the `task interleavings` dimension of
/// the statement on a single thread): every dataset of n events x every ordered pair of pacing vectors x
/// every ordered pair of strategies; each member must equal itself alone under its own pacing.
fn hetero_pacing(ctx: &Ctx, stats: &Stats, distinct: &Distinct) -> Value {
    use rayon::prelude::*;
    let n_h = ctx.tier.pick(2usize, 3usize);
    let mut units: Vec<(Vec<usize>, Vec<u64>, Vec<u64>)> = Vec::new();
    for n in 1..=n_h {
        let pacings: Vec<Vec<u64>> = product(&MENU_QUICK, n + 1).into_iter().filter(|p| p[0] > 0).collect();
        for instr in product(&[0usize, 1usize], n) {
            for p0 in &pacings {
                for p1 in &pacings {
                    if p0 != p1 {
                        units.push((instr.clone(), p0.clone(), p1.clone()));
                    }
                }
            }
        }
    }
    let batches = AtomicU64::new(0);
    let viols: Vec<(Viol, Value)> = units
        .par_iter()
        .flat_map_iter(|(instr, p0, p1)| {
            let n = instr.len();
            let strats = strategies(n);
            let mut found = Vec::new();
            for s0 in &strats {
                for s1 in &strats {
                    let mut out = Vec::new();
                    let delays = vec![p0.clone(), p1.clone()];
                    check_hetero(instr, &delays, &[*s0, *s1], stats, distinct, &mut out);
                    batches.fetch_add(1, Ordering::Relaxed);
                    for v in out {
                        found.push((v, case_json(instr, &Source::PacedPerMember(delays.clone()), &[*s0, *s1])));
                    }
                }
            }
            found
        })
        .collect();
    for ((sig, detail), case) in viols {
        ctx.violate(sig, detail, case);
    }
    json!({"max_events": n_h, "units_dataset_x_pacing_pair": units.len(), "batches": batches.load(Ordering::Relaxed),
        "rule": "N=2 members with different pacing vectors (all ordered pairs from the menu), all ordered strategy pairs; each member == itself alone under its own pacing"})
}

pub fn run(ctx: &Ctx) -> Outcome {
    let n_max = ctx.tier.pick(3usize, 4usize);
    // thorough: the 4-value menu (with burst delay 0) for n <= 3, the 3-value menu at n = 4
    let menu_for = |n: usize| -> Vec<u64> {
        if ctx.tier == crate::core::Tier::Thorough && n <= 3 { MENU_THOROUGH.to_vec() } else { MENU_QUICK.to_vec() }
    };
    // sanity of the no-tie claim: no run of consecutive delays sums to the latency
    for n in 1..=n_max {
        for len in 1..=n + 1 {
            for p in product(&menu_for(n), len) {
                assert_ne!(p.iter().sum::<u64>(), LATENCY_MS, "pacing menu creates a deadline tie: {p:?}");
            }
        }
    }

    let stats = Stats::default();
    let distinct = Distinct::default();
    let samples = Samples::new(6);
    let candidates = Candidates::default();
    let mut units: Vec<(Vec<usize>, Source)> = Vec::new();
    let mut per_n = Vec::new();
    for n in 1..=n_max {
        let patterns = product(&[0usize, 1usize], n);
        // The first delay is never 0: the initial account snapshot then reaches the engine before the first
        // market event, as in any real run (otherwise `HistoricalClock`'s wall-clock deltas decide whether
        // the first fill's balance is "newer" than the snapshot's, which no timing-free oracle can judge).
        let mut pacings = product(&menu_for(n), n + 1)
            .into_iter()
            .filter(|p| p[0] > 0)
            .map(Source::Paced)
            .collect::<Vec<_>>();
        pacings.push(Source::InMemory);
        per_n.push(json!({"n": n, "instrument_patterns": patterns.len(), "sources": pacings.len(), "strategies": strategies(n).len()}));
        for p in &patterns {
            for s in &pacings {
                units.push((p.clone(), s.clone()));
            }
        }
    }

    units.par_iter().for_each(|(instr, source)| {
        let n = instr.len();
        let strats = strategies(n);
        let mut viols: Vec<(Viol, Case)> = Vec::new();
        let mut refs = BTreeMap::new();
        for s in &strats {
            let mut out = Vec::new();
            if let Some(r) = reference(instr, source, *s, &stats, &distinct, &mut out) {
                refs.insert(*s, r);
            }
            viols.extend(out.into_iter().map(|v| (v, case_of(instr, source, &[*s]))));
        }
        // N=3 over every ordered assignment is the dominant cost: at the largest dataset size N=3 is run only
        // for the datasets whose first event is on instrument 0 (the mirror images are covered for N<=2).
        let max_members = if n == n_max && n >= 3 && instr[0] == 1 { 2 } else { 3 };
        for members_n in 1..=max_members {
            let mut assignments = product(&strats, members_n);
            if members_n == 3 && n >= 4 {
                // thorough, largest size: non-decreasing triples and their reversals instead of all 11^3 orders
                // (every ordered triple is run for n <= 3, every ordered pair for all n)
                let sorted: Vec<Vec<Strat>> = assignments.into_iter().filter(|m| m[0] <= m[1] && m[1] <= m[2]).collect();
                assignments = sorted
                    .iter()
                    .cloned()
                    .chain(sorted.iter().filter(|m| m[0] != m[2]).map(|m| m.iter().rev().cloned().collect()))
                    .collect();
            }
            for members in assignments {
                let mut out = Vec::new();
                check_batch(instr, source, &members, &refs, &stats, &distinct, &mut out);
                viols.extend(out.into_iter().map(|v| (v, case_of(instr, source, &members))));
            }
        }
        for ((sig, detail), case) in viols {
            candidates.report(sig, detail, case);
        }
    });

    // Serial confirmation of every signature (the sweep is over: nothing else runs in the process now).
    for (sig, (count, mut cands)) in candidates.inner.into_inner().unwrap() {
        cands.sort_by(|a, b| a.0.cmp(&b.0));
        let confirmed = cands.iter().find(|c| check_case_serial(&c.2, false).iter().any(|v| v.0 == sig));
        let (detail, case) = match confirmed.map(|c| (c.1.clone(), c.2.clone())).or_else(|| serial_search(&sig)) {
            Some(found) => found,
            None => {
                let c = &cands[0];
                let mut case = c.2.clone();
                case.needs_parallel_context = true;
                (format!("{} [not reproduced by a serial re-run of this or any small case: observed only while other backtests were running on other threads of the process — interference through process-global state]", c.1), case)
            }
        };
        ctx.violate(sig.clone(), detail, serde_json::to_value(&case).unwrap());
        for _ in 1..count {
            ctx.violations.bump(&sig);
        }
    }

    // deterministic samples: a few cases spread over the unit list, re-executed serially with their outcome
    for k in 0..6usize {
        let (instr, source) = &units[(units.len() - 1) * k / 5];
        let strats = strategies(instr.len());
        let members: Vec<Strat> = (0..(k % 3) + 1).map(|j| strats[(k + 2 * j + 1) % strats.len()]).collect();
        let observed = execute(instr, source, &members, Mode::Batch).ok().map(|v| {
            v.iter()
                .map(|o| json!({"market_events_seen": o.record.market.len(), "fills": o.record.fills.len(), "orders_sent": o.record.orders_sent,
                                "positions": o.record.positions, "realised_pnl": o.record.pnl_realised, "summary": o.summary}))
                .collect::<Vec<_>>()
        });
        samples.offer(|| json!({"case": case_json(instr, source, &members), "observed": observed}));
    }

    let hetero = hetero_pacing(ctx, &stats, &distinct);
    let long = long_datasets(ctx);
    let smoke = mt_smoke(ctx);

    let g = |a: &AtomicU64| a.load(Ordering::Relaxed);
    if g(&stats.members_with_fills) == 0 || g(&stats.members_round_trip) == 0 || g(&stats.members_fill_cut_by_shutdown) == 0 {
        // vacuity guard: the harness must reach fills, closed round trips and cut-off responses
        if ctx.violations.len() == 0 {
            eprintln!("MACHINERY: C20 exploration is vacuous (no fills / round trips / cut-off responses reached)");
            std::process::exit(2);
        }
    }
    Outcome {
        level: "exploration",
        coverage: json!({
            "evaluations": g(&stats.executions),
            "batch_runs": g(&stats.batch_runs),
            "backtests_observed": g(&stats.backtests),
            "oracle_evaluations": g(&stats.oracle_evals),
            "distinct_nontrivial": distinct.len(),
            "members_with_fills": g(&stats.members_with_fills),
            "members_with_closed_round_trip": g(&stats.members_round_trip),
            "members_with_open_final_position": g(&stats.members_open_position),
            "members_with_response_cut_off_by_shutdown": g(&stats.members_fill_cut_by_shutdown),
            "units_dataset_x_source": units.len(),
            "per_n": per_n,
            "n_max": n_max,
            "pacing_menu_ms_by_n": (1..=n_max).map(|n| json!({"n": n, "menu": menu_for(n)})).collect::<Vec<_>>(),
            "latency_ms": LATENCY_MS,
            "max_concurrent_members": 3,
            "bounds": {
                "dataset_sizes": format!("1..={n_max}"),
                "instrument_patterns": "all 2^n",
                "pacings": "menu^(n+1) with first delay > 0, plus the real MarketDataInMemory",
                "strategies": "idle + buy@b/sell@s for all 1<=b<s<=n+1",
                "members": "N=1,2: every ordered assignment for every dataset; N=3: every ordered assignment (n<=3), non-decreasing triples + reversals (n=4); at n=n_max N=3 only for datasets starting on instrument 0",
            },
            "exhaustive": true,
            "rule": "every dataset (instrument pattern) x every pacing vector (menu^(n+1)) + real MarketDataInMemory x every ordered assignment of strategies to N in {1,2,3} members, each executed by the real backtest()/run_backtests() on a paused current-thread runtime; R1 completeness/order, R2 member-in-batch == same member alone (and alone twice), R3 summary is its own engine's",
            "samples": samples.take(),
            "heterogeneous_pacing_layer": hetero,
            "long_dataset_layer": long,
            "auxiliary_multithread_smoke": smoke,
        }),
        assumptions: vec![
            "strategies decide from the number of market events seen only (timing-independent class of the statement)".into(),
            "pacing menus avoid coinciding virtual deadlines (asserted at start); multi-thread scheduler interleavings are not enumerated: on a current-thread runtime with paused time the only freedom is the relative order of market events and execution responses in the engine feed, which the pacing vectors enumerate".into(),
            "one mocked exchange, two spot instruments, market orders of quantity 1, balances never exhausted, no disconnects and no fatal engine errors in the explored runs".into(),
            "N=3 at the largest dataset size (n=3 quick, n=4 thorough) only for datasets starting on instrument 0; all smaller sizes: every dataset x N<=3; at n=4 the N=3 assignments are the non-decreasing strategy triples and their reversals (all ordered triples for n<=3, all ordered pairs for every n)".into(),
            "the first market event is delivered a positive virtual delay after system start, i.e. after the initial account snapshot".into(),
            "timestamps are excluded from compared outcomes (HistoricalClock adds wall-clock deltas); dataset timestamps are one hour apart so wall-clock jitter cannot reorder exchange timestamps".into(),
        ],
    }
}

pub fn replay(ctx: &Ctx, case: &Value) {
    let case_v = case.clone();
    let case: Case = match serde_json::from_value(case.clone()) {
        Ok(c) => c,
        Err(e) => {
            eprintln!("MACHINERY: C20 replay: bad case: {e}");
            std::process::exit(2)
        }
    };
    let mut out = Vec::new();
    if case.mt_workers > 0 {
        // non-deterministic schedule: repeat a few times
        for _ in 0..20 {
            check_mt_smoke(&case.instr, &case.source, &case.members, case.mt_workers, &mut out);
        }
    } else {
        out = check_case_serial(&case, true);
        if out.is_empty() && case.needs_parallel_context {
            println!("serial re-run clean; re-running under concurrent load (4 checker threads x 40 repetitions, 4 noisy-neighbour threads)");
            out = check_case_under_load(&case);
        }
    }
    for (sig, detail) in out {
        ctx.violate(sig, detail, case_v.clone());
    }
}
