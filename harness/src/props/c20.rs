//! C20 — Backtests consume their whole dataset in order and do not affect one another.
//!
//! Engine: **E-ENV at whole-system level**. Every execution is the REAL `barter::backtest::backtest` /
//! `run_backtests` (execution builder, mock exchange with latency tasks, execution manager, system
//! builder, forwarders, `async_run`, `shutdown_after_backtest`, summary generator) driven to completion on
//! a fresh current-thread tokio runtime with a *paused* clock. All timing of the environment is owned by
//! the harness and enumerated exhaustively:
//!
//! * the market data source is a harness `BacktestMarketData` that sleeps a virtual delay `w_i` before
//!   yielding event `i` and a tail delay `w_{n+1}` before ending the stream (pacing vector, every
//!   combination of the menu), or the real `MarketDataInMemory` (no pacing at all);
//! * the mock exchange answers after the configured virtual latency `L`;
//! * so each pacing fixes one relative order of "next market event" vs "execution response /
//!   notification" entering the engine's single FIFO feed — the only scheduling freedom that can change
//!   what an engine computes on a current-thread runtime. The menu avoids coinciding deadlines
//!   (no run of consecutive delays sums to L; asserted at start), so there are no uncontrolled ties.
//! * an auxiliary, non-exhaustive smoke run on a real-time 4-worker runtime repeats the timing-independent
//!   rules (R1, R3) and is reported under its own evidence key / signature prefix `C20/mt-smoke/`.
//!
//! Observation without hooks: a recording `GlobalData` (a plain `Vec` inside the engine state, hence
//! cloned per backtest with the rest of the shared initial state) logs every market event and fill the
//! engine processes; the per-backtest `AlgoStrategy` (consulted by the engine after every processed
//! event, never after `Shutdown`) copies that log plus positions / balances / realised PnL into an
//! `Arc<Mutex<Record>>` private to that backtest. The last copy is the engine's final state.
//!
//! Alphabet: datasets of n trade events over 2 instruments (every instrument pattern, distinct ids,
//! colliding prices, strictly increasing timestamps one hour apart), strategies "buy 1 on market event b,
//! sell 1 on market event s" for all b < s <= n+1 (s = n+1: never sold, position stays open) plus an idle
//! strategy — decisions depend on the market-event count only, never on the arrival of responses (the class
//! the statement quantifies over); N in {1,2,3} concurrent members with every ordered assignment of
//! strategies (repetitions included: identical cids in different members collide on purpose). The space is
//! a plain product (no data-dependent choice points), so it is enumerated with nested loops + rayon rather
//! than with the `choice` explorer. Bounds per tier are in `run` and in the evidence (`bounds`).
//!
//! Further layers (each closes a dimension the product above does not vary):
//!  * stalled sources: every pacing position also with a 6-hour virtual delay (a shutdown that stops waiting
//!    for the stream after a while feeds only a prefix);
//!  * dataset shapes: datasets whose entries are not plain increasing trades - equal and decreasing exchange
//!    timestamps, exact duplicates of the previous trade, `MarketStreamEvent::Reconnecting` entries (logged
//!    through the engine's `on_disconnect` call) - "every event … exactly once and in dataset order" is about
//!    the dataset as given, whatever its timestamps and entry kinds;
//!  * per-member pacing (members of one batch not in lock-step), long datasets (every length up to a few
//!    thousand, then the neighbourhood of every power of two / ten up to 2^16 (2^17 thorough); whole backtests
//!    up to 16385 (131073) entries), many members (N up to 32 (64): `try_join_all` changes its polling
//!    discipline above 30 futures).
//!
//!  * several exchanges (hardening round 2): datasets that also hold trades and `Reconnecting` entries of a
//!    SECOND exchange for which no execution is configured (market data of a venue that is watched but not
//!    traded). That exchange sorts before the mocked one, so the mocked exchange is ExchangeIndex(1), its
//!    instruments are InstrumentIndex(1..=2) and the unlinked exchange comes first in every table. "Every
//!    event of its market dataset" includes those entries, and their order relative to the others counts.
//!
//! Because the sweep itself runs many backtests on 16 OS threads of one process, a defect that couples
//! backtests through process-global state also shows up as interference BETWEEN sweep workers. Violations
//! are therefore first collected as candidates; after the sweep every signature is confirmed by a serial
//! re-run (candidate cases, then a serial search of the small cases). Only if no case shows the signature on
//! its own is the artefact marked `needs_parallel_context`, and `replay` then re-runs it under concurrent
//! load (noisy-neighbour threads).
//!
//! Oracles (each from one sentence of the statement):
//!  R1 completeness/order  "feeds every event of its market dataset to its engine exactly once and in
//!     dataset order before shutting the engine down … nothing is skipped": the engine-local market log
//!     equals the dataset, for every pacing, every member, alone and in a batch; the backtest succeeds.
//!     An entry of the log is the event as the engine received it (trade id, instrument, price, and - hardening
//!     round 2 - exchange time, exchange, side, amount: the dataset's own values, compared exactly; not the
//!     receipt time), so an event that reaches the engine re-stamped or otherwise rewritten is not "the event of
//!     the dataset" (cause `event-content-changed`). A `Reconnecting` entry about a link that is already
//!     down need not show up in the `on_disconnect` log if the engine demonstrably processed it (soundness
//!     round, see `market_log`).
//!  R2 isolation (differential, no hand-written expectation) "running many backtests concurrently over
//!     the same shared data and configuration gives each one the same fills, final positions, balances
//!     and realised PnL that it produces when run alone": member i of a batch == the same strategy run
//!     alone (direct `backtest()` on its own runtime) under the same dataset and pacing. Timestamps are
//!     excluded (`HistoricalClock` adds wall-clock deltas); exchange-assigned ids are compared up to a
//!     consistent renaming (soundness round, see `canon_ids`). Running the same backtest alone twice must
//!     give the same outcome too (otherwise "what it produces when run alone" is not even defined —
//!     sequential backtests affecting one another through process-global state).
//!  R3 own summary "the summary it returns is computed from that engine alone": the summary's id /
//!     risk-free return are those of its own dynamic arguments, its per-instrument PnL and per-asset end
//!     balances equal the values exported by the SAME backtest's engine, and the summary (time-free
//!     fields) equals the summary of the alone run.

use crate::core::{Ctx, Distinct, Outcome, Samples, hash_of};
use crate::explore::env::paused_rt;
use barter::{
    backtest::{
        BacktestArgsConstant, BacktestArgsDynamic, backtest,
        market_data::{BacktestMarketData, MarketDataInMemory},
        run_backtests,
        summary::BacktestSummary,
    },
    engine::{
        Engine, Processor,
        state::{
            EngineState,
            instrument::{data::DefaultInstrumentMarketData, filter::InstrumentFilter},
            trading::TradingState,
        },
    },
    error::BarterError,
    risk::DefaultRiskManager,
    statistic::time::Daily,
    strategy::{
        algo::AlgoStrategy, close_positions::ClosePositionsStrategy,
        on_disconnect::OnDisconnectStrategy, on_trading_disabled::OnTradingDisabled,
    },
    system::config::ExecutionConfig,
};
use barter_data::{
    event::{DataKind, MarketEvent},
    streams::consumer::MarketStreamEvent,
    subscription::trade::PublicTrade,
};
use barter_execution::{
    AccountEvent, AccountEventKind, InstrumentAccountSnapshot, UnindexedAccountSnapshot,
    balance::{AssetBalance, Balance},
    client::mock::MockExecutionConfig,
    order::{
        OrderKey, OrderKind, TimeInForce,
        id::{ClientOrderId, StrategyId},
        request::{OrderRequestCancel, OrderRequestOpen, RequestOpen},
    },
};
use barter_instrument::{
    Side, Underlying,
    asset::{AssetIndex, name::AssetNameExchange},
    exchange::{ExchangeId, ExchangeIndex},
    index::IndexedInstruments,
    instrument::{Instrument, InstrumentIndex, name::InstrumentNameExchange},
};
use chrono::{DateTime, TimeDelta, Utc};
use futures::{Stream, StreamExt, stream::BoxStream};
use rayon::prelude::*;
use rust_decimal::Decimal;
use rust_decimal_macros::dec;
use serde::{Deserialize, Serialize};
use serde_json::{Value, json};
use smol_str::SmolStr;
use std::{
    collections::{BTreeMap, HashMap},
    sync::{
        Arc, Mutex,
        atomic::{AtomicU64, Ordering},
    },
};

// ------------------------------------------------------------------------------------------------
// Fixed configuration
// ------------------------------------------------------------------------------------------------

/// Mock exchange latency (virtual ms). Response and notifications land `L` after the request.
const LATENCY_MS: u64 = 100;
/// Pacing menu (virtual ms). No sum of <= 5 menu values equals LATENCY_MS, so a market event and an
/// execution response never share a deadline. `0` = event yielded without any suspension (burst).
const MENU_QUICK: [u64; 3] = [1, 30, 250];
const MENU_THOROUGH: [u64; 4] = [0, 1, 30, 250];
const EXCHANGE: ExchangeId = ExchangeId::BinanceSpot;
const INSTRUMENTS: [(&str, &str, &str); 2] = [("btc_usdt", "BTCUSDT", "btc"), ("eth_usdt", "ETHUSDT", "eth")];
/// Prices by event position; positions 1 and 3 collide on purpose.
const PRICES: [f64; 4] = [100.0, 110.0, 90.0, 110.0];

/// A "stalled stream" delay (virtual ms): 6 hours. The statement lets a backtest shut its engine down only
/// after the WHOLE dataset was fed, however slowly the source yields it, so every pacing position is also
/// tried with this delay (virtual time: the paused clock jumps over it at no cost; not longer than this so
/// that an implementation that wakes up periodically while it waits does not make the check slow).
const STALL_MS: u64 = 6 * 3600 * 1000;

/// Dataset event codes (the entries of `Case::instr`). 0/1 = a trade on instrument 0/1 stamped one hour
/// after the latest timestamp so far (the only codes of the main sweep). The *dataset shape* layer also uses:
/// 2/3 = trade stamped EQUAL to the previous trade, 4/5 = trade stamped one hour EARLIER than the previous
/// trade (possibly before the first event of the dataset, i.e. before the start of the backtest's clock), 6/7 = an exact DUPLICATE of the previous
/// trade (same id, time, instrument, price; the instrument bit is ignored), 8 = `MarketStreamEvent::Reconnecting`.
/// The first trade of a dataset is always a plain one whatever its kind says.
const CODE_RECONNECT: usize = 8;
const CODES_ALL: [usize; 9] = [0, 1, 2, 3, 4, 5, 6, 7, 8];
/// Codes of the *several exchanges* layer: 9 = a plain trade (one hour after the latest timestamp) on the
/// instrument of the second, unlinked exchange; 10 = `MarketStreamEvent::Reconnecting` of that exchange. A
/// dataset that holds one of them runs in the three-instrument layout (see `foreign_layout`).
const CODE_FOREIGN_TRADE: usize = 9;
const CODE_FOREIGN_RECONNECT: usize = 10;
const CODES_MULTI_EXCHANGE: [usize; 4] = [0, 1, CODE_FOREIGN_TRADE, CODE_FOREIGN_RECONNECT];
/// The second exchange: tracked by the engine (it has an instrument), no execution configured. It sorts
/// BEFORE `EXCHANGE`, so it is ExchangeIndex(0) and its instrument InstrumentIndex(0).
const FOREIGN_EXCHANGE: ExchangeId = ExchangeId::BinanceFuturesUsd;
const FOREIGN_INSTRUMENT: (&str, &str, &str) = ("xbt_usdt_foreign", "XBTUSDT", "xbt");

/// Datasets with entries of the second exchange run with three instruments (the foreign one first).
fn foreign_layout(instr: &[usize]) -> bool {
    instr.iter().any(|c| *c == CODE_FOREIGN_TRADE || *c == CODE_FOREIGN_RECONNECT)
}
/// `MEv::instrument` of a logged `Reconnecting` event
const RECONNECT_MARK: usize = 99;

fn t_hour(h: i64) -> DateTime<Utc> {
    DateTime::<Utc>::from_timestamp(1_700_000_000, 0).unwrap() + TimeDelta::hours(h)
}

fn t_event(i: usize) -> DateTime<Utc> {
    // Dataset timestamps are whole hours: the wall-clock deltas that `HistoricalClock` adds (micro- to
    // milliseconds) can then never move an exchange timestamp into another hour.
    DateTime::<Utc>::from_timestamp(1_700_000_000, 0).unwrap() + TimeDelta::hours(i as i64)
}

// ------------------------------------------------------------------------------------------------
// Case description (replayable)
// ------------------------------------------------------------------------------------------------

#[derive(Debug, Clone, Copy, PartialEq, Eq, Hash, PartialOrd, Ord, Serialize, Deserialize)]
pub enum Strat {
    /// never sends an order
    Idle,
    /// buy 1 unit of the instrument of market event `buy` when the engine has seen `buy` market events,
    /// sell 1 unit of it when it has seen `sell` market events (`sell` = n+1: never)
    Trade { buy: usize, sell: usize },
}

#[derive(Debug, Clone, PartialEq, Eq, Hash, Serialize, Deserialize)]
pub enum Source {
    /// harness paced source: delays[i] before event i (i < n), delays[n] before end-of-stream
    Paced(Vec<u64>),
    /// the real `MarketDataInMemory`
    InMemory,
    /// harness paced source whose pacing differs per concurrent member: the k-th `stream()` call of a
    /// batch (= member k on the current-thread runtime) is paced with `delays[k]`
    PacedPerMember(Vec<Vec<u64>>),
}

#[derive(Debug, Clone, Serialize, Deserialize)]
pub struct Case {
    /// instrument (0/1) of each dataset event; length n
    pub instr: Vec<usize>,
    pub source: Source,
    /// strategies of the concurrent members (batch through `run_backtests`)
    pub members: Vec<Strat>,
    /// 0 = paused current-thread runtime (the deciding exploration); k > 0 = auxiliary smoke run on a
    /// real-time multi-thread runtime with k workers (only the timing-independent rules R1/R3 apply)
    #[serde(default)]
    pub mt_workers: usize,
    /// set when the violation was observed during the (multi-threaded) sweep but a serial re-run of the case
    /// alone in the process does not show it: the interference came from backtests running on OTHER threads
    /// (process-global state). Replay then re-runs the case under concurrent load.
    #[serde(default)]
    pub needs_parallel_context: bool,
}

// ------------------------------------------------------------------------------------------------
// Recording seams
// ------------------------------------------------------------------------------------------------

#[derive(Debug, Clone, PartialEq, Eq, Hash, Serialize)]
pub struct MEv {
    id: String,
    instrument: usize,
    price: String,
    /// the rest of the event as the dataset holds it: exchange time, exchange, and for a trade its side and
    /// amount. These are the dataset's own values (no clock of the backtest is involved), so they are
    /// compared exactly: "feeds every event of its market dataset" means the event as given, not a
    /// re-stamped or otherwise rewritten copy of it. The RECEIPT time is left out on purpose: it describes
    /// the recording host, and a replay that re-stamps it is not judged. Empty for a `Reconnecting` entry.
    stamp: String,
}

fn stamp_of(event: &MarketEvent<InstrumentIndex, DataKind>) -> String {
    let detail = match &event.kind {
        DataKind::Trade(t) => format!("{:?}|{}", t.side, t.amount),
        _ => String::new(),
    };
    format!("{}|{}|{detail}", event.time_exchange.to_rfc3339(), event.exchange)
}

#[derive(Debug, Clone, PartialEq, Eq, Hash, Serialize)]
pub struct Fill {
    trade_id: String,
    order_id: String,
    instrument: usize,
    side: String,
    price: String,
    quantity: String,
    fee: String,
    /// exchange time of the fill in whole hours since the first dataset event. Dataset events are one hour
    /// apart and a backtest's clock sits a few wall-clock micro/milliseconds after the last market event
    /// ITS engine processed, so this is the index of that event - a coarse, timing-robust view of the
    /// timestamp that still shows a fill stamped by another backtest's clock.
    hour: i64,
}

/// `GlobalData` of the engine state: engine-local log of what the engine processed.
#[derive(Debug, Clone, Default)]
pub struct RecGlobal {
    market: Vec<MEv>,
    fills: Vec<Fill>,
    account_events: u64,
}

impl<'a> Processor<&'a MarketEvent<InstrumentIndex, DataKind>> for RecGlobal {
    type Audit = ();
    fn process(&mut self, event: &'a MarketEvent<InstrumentIndex, DataKind>) -> Self::Audit {
        let (id, price) = match &event.kind {
            DataKind::Trade(t) => (t.id.clone(), format!("{}", t.price)),
            other => ("?".to_string(), format!("{other:?}")),
        };
        self.market.push(MEv { id, instrument: event.instrument.index(), price, stamp: stamp_of(event) });
    }
}

impl<'a> Processor<&'a AccountEvent> for RecGlobal {
    type Audit = ();
    fn process(&mut self, event: &'a AccountEvent) -> Self::Audit {
        self.account_events += 1;
        if let AccountEventKind::Trade(t) = &event.kind {
            self.fills.push(Fill {
                trade_id: t.id.0.to_string(),
                order_id: t.order_id.0.to_string(),
                instrument: t.instrument.index(),
                side: format!("{:?}", t.side),
                price: t.price.normalize().to_string(),
                quantity: t.quantity.normalize().to_string(),
                fee: t.fees.fees.normalize().to_string(),
                hour: t.time_exchange.signed_duration_since(t_event(0)).num_hours(),
            });
        }
    }
}

type St = EngineState<RecGlobal, DefaultInstrumentMarketData>;

/// What the strategy exports on every consultation (time-free view of its own engine's state).
#[derive(Debug, Clone, Default, PartialEq, Eq, Hash, Serialize)]
pub struct Record {
    calls: u64,
    market: Vec<MEv>,
    fills: Vec<Fill>,
    account_events: u64,
    /// per instrument: open position (side, quantity, entry price, realised pnl of the open position)
    positions: Vec<Option<(String, String, String, String)>>,
    /// per asset: (name, total, free)
    balances: Vec<(String, Option<(String, String)>)>,
    /// per instrument: realised PnL of exited positions (engine's own tear-sheet accumulator)
    pnl_realised: Vec<String>,
    orders_sent: Vec<String>,
    bought: Option<usize>,
}

#[derive(Debug, Clone)]
pub struct RecStrategy {
    plan: Strat,
    id: StrategyId,
    out: Arc<Mutex<Record>>,
}

fn d(x: Decimal) -> String {
    x.normalize().to_string()
}

impl AlgoStrategy for RecStrategy {
    type State = St;
    fn generate_algo_orders(
        &self,
        state: &Self::State,
    ) -> (
        impl IntoIterator<Item = OrderRequestCancel<ExchangeIndex, InstrumentIndex>>,
        impl IntoIterator<Item = OrderRequestOpen<ExchangeIndex, InstrumentIndex>>,
    ) {
        let mut out = self.out.lock().unwrap();
        // export the engine-local record
        out.calls += 1;
        // (long logs are copied incrementally: the log is append-only; the overlap is re-checked at its end)
        let log = &state.global.market;
        let have = out.market.len();
        if have >= 64 && have <= log.len() && out.market[have - 1] == log[have - 1] && out.market[have / 2] == log[have / 2] {
            out.market.extend_from_slice(&log[have..]);
        } else {
            out.market = log.clone();
        }
        out.fills = state.global.fills.clone();
        out.account_events = state.global.account_events;
        out.positions = state
            .instruments
            .0
            .values()
            .map(|s| {
                s.position.current.as_ref().map(|p| {
                    (format!("{:?}", p.side), d(p.quantity_abs), d(p.price_entry_average), d(p.pnl_realised))
                })
            })
            .collect();
        out.balances = state
            .assets
            .0
            .iter()
            .map(|(k, s)| {
                (
                    format!("{}", k.asset.as_ref()),
                    s.balance.as_ref().map(|b| (d(b.value.total), d(b.value.free))),
                )
            })
            .collect();
        out.pnl_realised = state.instruments.0.values().map(|s| d(s.tear_sheet.pnl_returns.pnl_raw)).collect();

        // decide (function of the number of market events seen only)
        let seen = state.global.market.iter().filter(|e| e.instrument != RECONNECT_MARK).count();
        let last_item = state.global.market.iter().rfind(|e| e.instrument != RECONNECT_MARK);
        let mut opens = Vec::new();
        if let Strat::Trade { buy, sell } = self.plan {
            let mk = |instrument: usize, side: Side, cid: String, price: Decimal| OrderRequestOpen {
                key: OrderKey {
                    // the exchange of that instrument (ExchangeIndex(1) in the three-instrument layout)
                    exchange: state.instruments.instrument_index(&InstrumentIndex(instrument)).instrument.exchange,
                    instrument: InstrumentIndex(instrument),
                    strategy: self.id.clone(),
                    cid: ClientOrderId::new(cid),
                },
                state: RequestOpen {
                    side,
                    price,
                    quantity: Decimal::ONE,
                    kind: OrderKind::Market,
                    time_in_force: TimeInForce::ImmediateOrCancel,
                },
            };
            let price_of = |instrument: usize| {
                use barter::engine::state::instrument::data::InstrumentDataState;
                state.instruments.instrument_index(&InstrumentIndex(instrument)).data.price()
            };
            if seen == buy && out.bought.is_none() {
                let instrument = last_item.map(|e| e.instrument).unwrap_or(0);
                // three-instrument layout: the foreign instrument (index 0) cannot be traded - no execution
                // is configured for its exchange; buy the first mocked instrument instead
                let instrument = if state.instruments.0.len() > INSTRUMENTS.len() && instrument == 0 { 1 } else { instrument };
                if let Some(price) = price_of(instrument) {
                    out.bought = Some(instrument);
                    out.orders_sent.push(format!("buy@{seen}"));
                    opens.push(mk(instrument, Side::Buy, format!("b{buy}"), price));
                }
            }
            if seen == sell && !out.orders_sent.iter().any(|o| o.starts_with("sell")) {
                if let Some(instrument) = out.bought {
                    if let Some(price) = price_of(instrument) {
                        out.orders_sent.push(format!("sell@{seen}"));
                        opens.push(mk(instrument, Side::Sell, format!("s{sell}"), price));
                    }
                }
            }
        }
        (Vec::<OrderRequestCancel<ExchangeIndex, InstrumentIndex>>::new(), opens)
    }
}

impl ClosePositionsStrategy for RecStrategy {
    type State = St;
    fn close_positions_requests<'a>(
        &'a self,
        _: &'a Self::State,
        _: &'a InstrumentFilter<ExchangeIndex, AssetIndex, InstrumentIndex>,
    ) -> (
        impl IntoIterator<Item = OrderRequestCancel<ExchangeIndex, InstrumentIndex>> + 'a,
        impl IntoIterator<Item = OrderRequestOpen<ExchangeIndex, InstrumentIndex>> + 'a,
    )
    where
        ExchangeIndex: 'a,
        AssetIndex: 'a,
        InstrumentIndex: 'a,
    {
        (std::iter::empty(), std::iter::empty())
    }
}

/// The engine calls this when it processes a `Reconnecting` event (market or account stream; the mock
/// account stream never reconnects in these runs): log it in the engine-local record, in processing order.
impl<C, T, R> OnDisconnectStrategy<C, St, T, R> for RecStrategy {
    type OnDisconnect = ();
    fn on_disconnect(engine: &mut Engine<C, St, T, Self, R>, exchange: ExchangeId) -> Self::OnDisconnect {
        engine.state.global.market.push(reconnect_mev(exchange));
    }
}

impl<C, S, T, R> OnTradingDisabled<C, S, T, R> for RecStrategy {
    type OnTradingDisabled = ();
    fn on_trading_disabled(_: &mut Engine<C, S, T, Self, R>) -> Self::OnTradingDisabled {}
}

// ------------------------------------------------------------------------------------------------
// Market data sources
// ------------------------------------------------------------------------------------------------

type MEvent = MarketStreamEvent<InstrumentIndex, DataKind>;

#[derive(Debug, Clone)]
pub enum Data {
    Paced { events: Arc<Vec<MEvent>>, delays: Arc<Vec<u64>> },
    InMemory(MarketDataInMemory<DataKind>),
    PacedMulti { events: Arc<Vec<MEvent>>, delays: Arc<Vec<Vec<u64>>>, next: Arc<std::sync::atomic::AtomicUsize> },
}

impl BacktestMarketData for Data {
    type Kind = DataKind;

    async fn time_first_event(&self) -> Result<DateTime<Utc>, BarterError> {
        match self {
            Data::Paced { .. } | Data::PacedMulti { .. } => Ok(t_event(0)),
            Data::InMemory(m) => m.time_first_event().await,
        }
    }

    async fn stream(&self) -> Result<impl Stream<Item = MEvent> + Send + 'static, BarterError> {
        let s: BoxStream<'static, MEvent> = match self {
            Data::Paced { events, delays } => {
                let events = Arc::clone(events);
                let delays = Arc::clone(delays);
                futures::stream::unfold(0usize, move |i| {
                    let events = Arc::clone(&events);
                    let delays = Arc::clone(&delays);
                    async move {
                        let w = delays[i];
                        if w > 0 {
                            tokio::time::sleep(std::time::Duration::from_millis(w)).await;
                        }
                        if i < events.len() { Some((events[i].clone(), i + 1)) } else { None }
                    }
                })
                .boxed()
            }
            Data::InMemory(m) => m.stream().await?.boxed(),
            Data::PacedMulti { events, delays, next } => {
                let k = next.fetch_add(1, Ordering::SeqCst);
                let events = Arc::clone(events);
                let delays = Arc::new(delays[k % delays.len()].clone());
                futures::stream::unfold(0usize, move |i| {
                    let events = Arc::clone(&events);
                    let delays = Arc::clone(&delays);
                    async move {
                        let w = delays[i];
                        if w > 0 {
                            tokio::time::sleep(std::time::Duration::from_millis(w)).await;
                        }
                        if i < events.len() { Some((events[i].clone(), i + 1)) } else { None }
                    }
                })
                .boxed()
            }
        };
        Ok(s)
    }
}

fn dataset(instr: &[usize]) -> Vec<MEvent> {
    let mut out: Vec<MEvent> = Vec::with_capacity(instr.len());
    let mut latest_hour: i64 = -1;
    // previous trade and its hour
    let mut prev: Option<(MarketEvent<InstrumentIndex, DataKind>, i64)> = None;
    // three-instrument layout: the foreign instrument is InstrumentIndex(0), the mocked ones follow
    let base = if foreign_layout(instr) { 1 } else { 0 };
    for (i, code) in instr.iter().enumerate() {
        if *code == CODE_RECONNECT {
            out.push(MarketStreamEvent::Reconnecting(EXCHANGE));
            continue;
        }
        if *code == CODE_FOREIGN_RECONNECT {
            out.push(MarketStreamEvent::Reconnecting(FOREIGN_EXCHANGE));
            continue;
        }
        if *code == CODE_FOREIGN_TRADE {
            let hour = latest_hour + 1;
            latest_hour = hour;
            let event = MarketEvent {
                time_exchange: t_hour(hour),
                time_received: t_hour(hour) + TimeDelta::seconds(5),
                exchange: FOREIGN_EXCHANGE,
                instrument: InstrumentIndex(0),
                kind: DataKind::Trade(PublicTrade {
                    // ids of the other exchange's trades start with 'x' (rule R1 names what was skipped)
                    id: format!("x{}", i + 1),
                    price: PRICES[i % PRICES.len()],
                    amount: 1.0,
                    side: if i % 2 == 0 { Side::Buy } else { Side::Sell },
                }),
            };
            prev = Some((event.clone(), hour));
            out.push(MarketStreamEvent::Item(event));
            continue;
        }
        let (kind, inst) = (code / 2, code % 2 + base);
        let event = match (kind, &prev) {
            (3, Some((p, _))) => p.clone(),
            _ => {
                let hour = match (kind, &prev) {
                    (1, Some((_, h))) => *h,
                    (2, Some((_, h))) => *h - 1,
                    _ => latest_hour + 1,
                };
                latest_hour = latest_hour.max(hour);
                let event = MarketEvent {
                    time_exchange: t_hour(hour),
                    // receipt 5 s after the exchange time (the two are never equal)
                    time_received: t_hour(hour) + TimeDelta::seconds(5),
                    exchange: EXCHANGE,
                    instrument: InstrumentIndex(inst),
                    kind: DataKind::Trade(PublicTrade {
                        id: format!("e{}", i + 1),
                        price: PRICES[i % PRICES.len()],
                        amount: 1.0,
                        side: if i % 2 == 0 { Side::Buy } else { Side::Sell },
                    }),
                };
                prev = Some((event.clone(), hour));
                event
            }
        };
        out.push(MarketStreamEvent::Item(event));
    }
    out
}

fn reconnect_mev(exchange: ExchangeId) -> MEv {
    let id = if exchange == EXCHANGE { "reconnecting" } else { "reconnecting-other-exchange" };
    MEv { id: id.into(), instrument: RECONNECT_MARK, price: format!("{exchange}"), stamp: String::new() }
}

fn mev_of(e: &MEvent) -> MEv {
    match e {
        MarketStreamEvent::Reconnecting(exchange) => reconnect_mev(*exchange),
        MarketStreamEvent::Item(ev) => match &ev.kind {
            DataKind::Trade(t) => MEv { id: t.id.clone(), instrument: ev.instrument.index(), price: format!("{}", t.price), stamp: stamp_of(ev) },
            other => MEv { id: "?".into(), instrument: ev.instrument.index(), price: format!("{other:?}"), stamp: stamp_of(ev) },
        },
    }
}

/// What the engine-local log must be: the dataset itself, entry by entry.
fn expected_log(instr: &[usize]) -> Vec<MEv> {
    dataset(instr).iter().map(mev_of).collect()
}

// ------------------------------------------------------------------------------------------------
// Running the real backtests
// ------------------------------------------------------------------------------------------------

/// Time-free view of a returned `BacktestSummary`.
#[derive(Debug, Clone, PartialEq, Eq, Hash, Serialize)]
pub struct SummaryView {
    id: String,
    risk_free_return: String,
    /// per instrument: (pnl, win rate, profit factor)
    instruments: Vec<(String, Option<String>, Option<String>)>,
    /// per asset: end balance (total, free)
    assets: Vec<Option<(String, String)>>,
}

#[derive(Debug, Clone, PartialEq, Eq, Hash, Serialize)]
pub struct MemberOutcome {
    record: Record,
    /// the returned summary carrying this member's id (None: no such summary / several / wrong count)
    summary: Option<SummaryView>,
    summary_ids: Vec<String>,
}

/// Exchange-assigned ids (trade id, order id) are LABELS: nothing in the statement makes them a function of a
/// backtest's inputs, and an exchange may issue ids that differ from one solo run to the next (random, derived
/// from the clock, which adds wall-clock deltas) without any backtest affecting another. "The same fills ... that
/// it produces when run alone" is therefore compared up to a consistent renaming of the ids (first appearance
/// order: t0, t1, ... / o0, o1, ...): which fills share an order, and how many distinct ids there are, still
/// counts. Comparisons in which the raw labels differed although everything else was equal are COUNTED (evidence
/// key `comparisons_where_only_the_id_labels_differed`; 0 on a tree whose ids are deterministic and unshared).
fn canon_ids(v: &[Fill]) -> Vec<Fill> {
    let (mut t, mut o): (Vec<&str>, Vec<&str>) = (Vec::new(), Vec::new());
    v.iter()
        .map(|f| {
            let ti = t.iter().position(|x| *x == f.trade_id.as_str()).unwrap_or_else(|| {
                t.push(f.trade_id.as_str());
                t.len() - 1
            });
            let oi = o.iter().position(|x| *x == f.order_id.as_str()).unwrap_or_else(|| {
                o.push(f.order_id.as_str());
                o.len() - 1
            });
            Fill { trade_id: format!("t{ti}"), order_id: format!("o{oi}"), ..f.clone() }
        })
        .collect()
}

/// see `canon_ids`
static ID_LABELS_ONLY_DIFFER: AtomicU64 = AtomicU64::new(0);

impl MemberOutcome {
    /// what is counted as a distinct observed outcome: the record and the summary without identity fields
    fn essence(&self) -> (&Record, Option<(&Vec<(String, Option<String>, Option<String>)>, &Vec<Option<(String, String)>>)>) {
        (&self.record, self.summary.as_ref().map(|s| (&s.instruments, &s.assets)))
    }
}

fn summary_view(s: &BacktestSummary<Daily>) -> SummaryView {
    SummaryView {
        id: s.id.to_string(),
        risk_free_return: d(s.risk_free_return),
        instruments: s
            .trading_summary
            .instruments
            .values()
            .map(|t| (d(t.pnl), t.win_rate.as_ref().map(|w| d(w.value)), t.profit_factor.as_ref().map(|p| d(p.value))))
            .collect(),
        assets: s
            .trading_summary
            .assets
            .values()
            .map(|a| a.balance_end.map(|b| (d(b.total), d(b.free))))
            .collect(),
    }
}

type Args = Arc<BacktestArgsConstant<Data, Daily, St>>;
type Dynamic = BacktestArgsDynamic<RecStrategy, DefaultRiskManager<St>>;

fn member_id(i: usize) -> String {
    format!("m{i}")
}
fn member_rfr(i: usize) -> Decimal {
    dec!(0.01) * Decimal::from(i as u64 + 1)
}

fn constants(instr: &[usize], source: &Source, latency_ms: u64) -> Args {
    let foreign = foreign_layout(instr);
    let mut list: Vec<Instrument<ExchangeId, barter_instrument::asset::Asset>> = INSTRUMENTS
        .iter()
        .map(|(internal, name_ex, base)| Instrument::spot(EXCHANGE, *internal, *name_ex, Underlying::new(*base, "usdt"), None))
        .collect();
    if foreign {
        let (internal, name_ex, base) = FOREIGN_INSTRUMENT;
        list.push(Instrument::spot(FOREIGN_EXCHANGE, internal, name_ex, Underlying::new(base, "usdt"), None));
    }
    let instruments = IndexedInstruments::new(list);
    if foreign {
        // the layout the dataset and the strategy rely on
        let i = instruments.instruments();
        assert!(
            i.len() == 3 && i[0].value.exchange.value == FOREIGN_EXCHANGE && i[0].value.exchange.key == ExchangeIndex(0)
                && i[1].value.exchange.value == EXCHANGE && i[2].value.exchange.value == EXCHANGE,
            "harness: three-instrument layout is not [foreign, mocked, mocked]"
        );
    }
    let events = Arc::new(dataset(instr));
    let market_data = match source {
        Source::Paced(delays) => {
            assert_eq!(delays.len(), instr.len() + 1, "pacing vector has n+1 entries");
            Data::Paced { events, delays: Arc::new(delays.clone()) }
        }
        Source::InMemory => Data::InMemory(MarketDataInMemory::new(events)),
        Source::PacedPerMember(delays) => {
            assert!(delays.iter().all(|d| d.len() == instr.len() + 1), "pacing vectors have n+1 entries");
            Data::PacedMulti { events, delays: Arc::new(delays.clone()), next: Arc::new(std::sync::atomic::AtomicUsize::new(0)) }
        }
    };
    let balance = |asset: &str, amount: Decimal| AssetBalance {
        asset: AssetNameExchange::new(asset),
        balance: Balance::new(amount, amount),
        time_exchange: t_event(0),
    };
    let executions = vec![ExecutionConfig::Mock(MockExecutionConfig {
        mocked_exchange: EXCHANGE,
        initial_state: UnindexedAccountSnapshot {
            exchange: EXCHANGE,
            balances: vec![balance("usdt", dec!(100000)), balance("btc", dec!(10)), balance("eth", dec!(10))],
            instruments: INSTRUMENTS
                .iter()
                .map(|(_, name_ex, _)| InstrumentAccountSnapshot {
                    instrument: InstrumentNameExchange::new(*name_ex),
                    orders: vec![],
                })
                .collect(),
        },
        latency_ms,
        fees_percent: dec!(0.01),
    })];
    let engine_state = EngineState::builder(&instruments, RecGlobal::default(), DefaultInstrumentMarketData::default)
        .time_engine_start(t_event(0))
        .trading_state(TradingState::Enabled)
        .build();
    Arc::new(BacktestArgsConstant { instruments, executions, market_data, summary_interval: Daily, engine_state })
}

fn dynamic(i: usize, plan: Strat) -> (Dynamic, Arc<Mutex<Record>>) {
    let out = Arc::new(Mutex::new(Record::default()));
    (
        BacktestArgsDynamic {
            id: SmolStr::new(member_id(i)),
            risk_free_return: member_rfr(i),
            strategy: RecStrategy { plan, id: StrategyId::new("c20"), out: Arc::clone(&out) },
            risk: DefaultRiskManager::default(),
        },
        out,
    )
}

#[derive(Debug, Clone, Copy, PartialEq)]
enum Mode {
    /// direct `backtest()` (single member)
    Alone,
    /// `run_backtests()` over all members
    Batch,
}

/// Execute the real code once. Err(kind) = the backtest returned an error or panicked.
fn execute(instr: &[usize], source: &Source, members: &[Strat], mode: Mode) -> Result<Vec<MemberOutcome>, (String, String)> {
    execute_on(instr, source, members, mode, 0)
}

/// Real-time latency of the mock exchange in the multi-thread smoke runs (ms).
const MT_LATENCY_MS: u64 = 4;

fn execute_on(instr: &[usize], source: &Source, members: &[Strat], mode: Mode, mt_workers: usize) -> Result<Vec<MemberOutcome>, (String, String)> {
    let args = constants(instr, source, if mt_workers == 0 { LATENCY_MS } else { MT_LATENCY_MS });
    let (dyns, outs): (Vec<_>, Vec<_>) = members.iter().enumerate().map(|(i, s)| dynamic(i, *s)).unzip();
    let result = std::panic::catch_unwind(std::panic::AssertUnwindSafe(|| {
        let rt = if mt_workers == 0 {
            paused_rt()
        } else {
            tokio::runtime::Builder::new_multi_thread().worker_threads(mt_workers).enable_time().build().expect("tokio runtime")
        };
        let r = rt.block_on(async move {
            match mode {
                Mode::Alone => {
                    let mut dyns = dyns;
                    backtest(args, dyns.remove(0)).await.map(|s| vec![s])
                }
                Mode::Batch => run_backtests(args, dyns).await.map(|m| m.summaries),
            }
        });
        drop(rt);
        r
    }));
    let summaries = match result {
        Err(_) => return Err(("panic".into(), "backtest panicked".into())),
        Ok(Err(e)) => {
            let text = format!("{e:?}");
            let kind: String = text.chars().take_while(|c| c.is_ascii_alphanumeric()).collect();
            return Err((kind, text));
        }
        Ok(Ok(s)) => s,
    };
    // `run_backtests` does not promise an order of the summaries: match them to the members by id.
    let views: Vec<SummaryView> = summaries.iter().map(summary_view).collect();
    Ok(outs
        .iter()
        .enumerate()
        .map(|(i, o)| {
            let mine: Vec<&SummaryView> = views.iter().filter(|v| v.id == member_id(i)).collect();
            MemberOutcome {
                record: o.lock().unwrap().clone(),
                summary: if mine.len() == 1 && views.len() == members.len() { Some(mine[0].clone()) } else { None },
                summary_ids: views.iter().map(|v| v.id.clone()).collect(),
            }
        })
        .collect())
}

// ------------------------------------------------------------------------------------------------
// Oracles
// ------------------------------------------------------------------------------------------------

type Viol = (String, String);

fn source_kind(s: &Source) -> &'static str {
    match s {
        Source::Paced(_) => "paced",
        Source::InMemory => "in-memory",
        Source::PacedPerMember(_) => "paced-per-member",
    }
}

/// `got` is `want` with some entries left out, all of which satisfy `class`.
fn is_subsequence_missing_only(want: &[String], got: &[String], class: impl Fn(&String) -> bool) -> bool {
    let mut gi = 0;
    for w in want {
        if gi < got.len() && *w == got[gi] {
            gi += 1;
        } else if !class(w) {
            return false;
        }
    }
    gi == got.len()
}

/// `got` is `want` with some entries left out, all of which satisfy `class`, and at least one left-out entry
/// is FOLLOWED by a delivered one (so the omission is not merely a cut-off tail).
fn is_subsequence_missing_inner_only(want: &[String], got: &[String], class: impl Fn(&String) -> bool) -> bool {
    let mut gi = 0;
    let (mut pending, mut inner) = (false, false);
    for w in want {
        if gi < got.len() && *w == got[gi] {
            gi += 1;
            inner |= pending;
        } else if class(w) {
            pending = true;
        } else {
            return false;
        }
    }
    gi == got.len() && inner
}


/// The engine-local market log as R1 judges it. A `Reconnecting` entry is observed through the engine's call of
/// the strategy's `on_disconnect` hook - but whether the ENGINE runs that hook for a notice about a link that is
/// already down (a repeated notice, or one before the exchange's first item: links start as `Reconnecting`) is
/// the engine's business, not the backtest's, and the statement is about what the backtest FEEDS. So: if the log
/// lacks only such redundant notices AND the engine demonstrably processed them as events (the strategy is
/// consulted once per processed event: consultations - market items - account events == number of `Reconnecting`
/// entries of the dataset), they are filled in at their dataset positions. A notice for a link that is up must
/// be in the log; anything else is returned as observed and judged by `rule_completeness`.
fn market_log(rec: &Record, want: &[MEv]) -> Vec<MEv> {
    let got = &rec.market;
    if got == want {
        return got.clone();
    }
    let items = got.iter().filter(|e| e.instrument != RECONNECT_MARK).count() as u64;
    let fed_other = rec.calls.saturating_sub(items + rec.account_events);
    if fed_other != want.iter().filter(|e| e.instrument == RECONNECT_MARK).count() as u64 {
        return got.clone();
    }
    let mut down: HashMap<String, bool> = HashMap::new();
    let (mut gi, mut filled) = (0usize, Vec::with_capacity(want.len()));
    for w in want {
        if w.instrument == RECONNECT_MARK {
            let was_down = down.insert(w.price.clone(), true).unwrap_or(true);
            if gi < got.len() && got[gi] == *w {
                filled.push(got[gi].clone());
                gi += 1;
            } else if was_down {
                filled.push(w.clone());
            } else {
                return got.clone();
            }
        } else {
            down.insert(w.stamp.split('|').nth(1).unwrap_or("").to_string(), false);
            if gi >= got.len() {
                return got.clone();
            }
            filled.push(got[gi].clone());
            gi += 1;
        }
    }
    if gi == got.len() { filled } else { got.clone() }
}

/// R1: the engine-local market log equals the dataset.
fn rule_completeness(want: &[MEv], got: &[MEv], source: &Source, ctxs: &str, out: &mut Vec<Viol>) {
    if want == got {
        return;
    }
    // classification by (id, instrument) keys with multiplicities (a dataset may hold the same event twice)
    let key = |e: &MEv| format!("{}@{}", e.id, e.instrument);
    let count = |v: &[MEv]| {
        let mut m: HashMap<String, usize> = HashMap::new();
        for e in v {
            *m.entry(key(e)).or_default() += 1;
        }
        m
    };
    let (w, g): (Vec<String>, Vec<String>) = (want.iter().map(key).collect(), got.iter().map(key).collect());
    let (wc, gc) = (count(want), count(got));
    let cause = if gc.iter().any(|(k, n)| wc.get(k).is_some_and(|m| n > m)) {
        "event-delivered-more-than-once"
    } else if gc.keys().any(|k| !wc.contains_key(k)) {
        "foreign-event"
    } else if g.len() < w.len() && is_subsequence_missing_inner_only(&w, &g, |k| k.starts_with('x') || k.starts_with("reconnecting-other-exchange@")) {
        // (a cut-off tail that happens to consist of the other exchange's entries is named as a cut-off tail below)
        "entry-of-an-exchange-without-execution-skipped"
    } else if g.len() < w.len() && is_subsequence_missing_only(&w, &g, |k| k.starts_with("reconnecting@")) {
        "reconnecting-entry-skipped"
    } else if g.len() < w.len() && is_subsequence_missing_only(&w, &g, |k| wc.get(k).is_some_and(|m| *m > 1)) {
        "repeated-event-skipped"
    } else if g.len() < w.len() && w[..g.len()] == g[..] {
        "tail-not-delivered-before-shutdown"
    } else if g.len() < w.len() && w[w.len() - g.len()..] == g[..] {
        "head-skipped"
    } else if g.len() < w.len() {
        "events-skipped"
    } else if w != g {
        "out-of-dataset-order"
    } else {
        "event-content-changed"
    };
    out.push((
        format!("C20/R1-completeness-order/{cause}/{}-source", source_kind(source)),
        {
            let first = want.iter().zip(got.iter()).position(|(a, b)| a != b).unwrap_or(want.len().min(got.len()));
            let from = first.saturating_sub(2);
            format!(
                "{ctxs}: engine saw {} entries, dataset has {}; first difference at index {first}; from index {from}: engine saw {:?}, dataset is {:?}",
                got.len(),
                want.len(),
                &got[from.min(got.len())..got.len().min(from + 12)],
                &want[from.min(want.len())..want.len().min(from + 12)]
            )
        },
    ));
}

/// R3 (own part): summary identity and consistency with the record of the same engine.
fn rule_own_summary(i: usize, o: &MemberOutcome, ctxs: &str, out: &mut Vec<Viol>) {
    let Some(summary) = &o.summary else {
        out.push((
            "C20/R3-own-summary/not-exactly-one-summary-with-own-id".into(),
            format!("{ctxs}: member {i} (id {}) : returned summary ids {:?}", member_id(i), o.summary_ids),
        ));
        return;
    };
    if summary.risk_free_return != d(member_rfr(i)) {
        out.push((
            "C20/R3-own-summary/risk-free-return-of-another-backtest".into(),
            format!("{ctxs}: member {i} summary.risk_free_return={} own={}", summary.risk_free_return, d(member_rfr(i))),
        ));
    }
    if o.record.calls == 0 {
        return; // engine never consulted the strategy: nothing exported (R1 reports it)
    }
    let pnl: Vec<String> = summary.instruments.iter().map(|t| t.0.clone()).collect();
    if pnl != o.record.pnl_realised {
        out.push((
            "C20/R3-own-summary/pnl-differs-from-own-engine".into(),
            format!("{ctxs}: member {i} summary pnl per instrument {:?}, its engine's realised pnl {:?}", pnl, o.record.pnl_realised),
        ));
    }
    let bal_rec: Vec<Option<(String, String)>> = o.record.balances.iter().map(|b| b.1.clone()).collect();
    if summary.assets != bal_rec {
        out.push((
            "C20/R3-own-summary/end-balance-differs-from-own-engine".into(),
            format!("{ctxs}: member {i} summary end balances {:?}, its engine's balances {:?}", summary.assets, o.record.balances),
        ));
    }
}

/// R2: differential comparison of one member with the reference (same strategy alone). Only the FIRST
/// differing field (in causal order: fills -> positions -> balances -> realised PnL -> summary) is reported,
/// so one defect gives one signature per comparison kind rather than one per derived quantity.
fn rule_isolation(prefix: &str, got: &MemberOutcome, reference: &MemberOutcome, ctxs: &str, out: &mut Vec<Viol>) {
    let strip = |v: &[Fill]| {
        v.iter().map(|f| (f.instrument, f.side.clone(), f.price.clone(), f.quantity.clone(), f.fee.clone())).collect::<Vec<_>>()
    };
    let (g, r) = (&got.record, &reference.record);
    // exchange-assigned ids are compared up to a consistent renaming (see `canon_ids`)
    let (gf, rf) = (canon_ids(&g.fills), canon_ids(&r.fills));
    if gf == rf && g.fills != r.fills {
        ID_LABELS_ONLY_DIFFER.fetch_add(1, Ordering::Relaxed);
    }
    let found: Option<(&str, String, String)> = if gf != rf {
        // the id STRUCTURE (which fills share an order / a trade id) is part of a fill; a difference in it only gets its own cause
        let no_hour = |v: &[Fill]| v.iter().map(|f| Fill { hour: 0, ..f.clone() }).collect::<Vec<_>>();
        let field = if no_hour(&gf) == no_hour(&rf) {
            "fill-exchange-times"
        } else if strip(&gf) == strip(&rf) {
            "fill-ids"
        } else {
            "fills"
        };
        Some((field, format!("{:?}", g.fills), format!("{:?}", r.fills)))
    } else if g.positions != r.positions {
        Some(("final-positions", format!("{:?}", g.positions), format!("{:?}", r.positions)))
    } else if g.balances != r.balances {
        Some(("balances", format!("{:?}", g.balances), format!("{:?}", r.balances)))
    } else if g.pnl_realised != r.pnl_realised {
        Some(("realised-pnl", format!("{:?}", g.pnl_realised), format!("{:?}", r.pnl_realised)))
    } else {
        match (&got.summary, &reference.summary) {
            // summary of that engine alone (identity fields are per member, checked by R3)
            (Some(a), Some(b)) if (&a.instruments, &a.assets) != (&b.instruments, &b.assets) => {
                Some(("summary", format!("{a:?}"), format!("{b:?}")))
            }
            _ => None,
        }
    };
    if let Some((field, a, b)) = found {
        out.push((format!("C20/{prefix}/{field}-differ"), format!("{ctxs}: {field}: got {a} reference(alone) {b}")));
    }
}

/// One batch judged by the rules that hold for EVERY schedule (R1 completeness/order, R3 the summary is its
/// own engine's). Used where a batch contains same-instant races that only the task scheduler resolves - the
/// burst source, where the initial account snapshot, the whole dataset and `Shutdown` all enter the feed at
/// one virtual instant: which of snapshot and `Shutdown` comes first is then a property of tokio's run queue
/// (observed: with 64 members some engines are shut down before they saw their snapshot, alone they see it),
/// so final balances may legitimately differ from the run alone and R2 is not evaluated.
fn check_batch_timing_free(instr: &[usize], source: &Source, members: &[Strat], stats: &Stats, distinct: &Distinct, out: &mut Vec<Viol>) {
    let ctxs = format!("batch instr={} source={source:?} members={members:?}", instr_text(instr));
    stats.executions.fetch_add(1, Ordering::Relaxed);
    stats.batch_runs.fetch_add(1, Ordering::Relaxed);
    let outcomes = match execute(instr, source, members, Mode::Batch) {
        Ok(v) => v,
        Err((kind, text)) => {
            out.push((format!("C20/R1-completeness-order/backtest-failed/{kind}"), format!("{ctxs}: {text}")));
            return;
        }
    };
    let want = expected_log(instr);
    for (i, o) in outcomes.iter().enumerate() {
        stats.note(o);
        distinct.add(&o.essence());
        stats.oracle_evals.fetch_add(2, Ordering::Relaxed);
        let c = format!("{ctxs} member={i}");
        rule_completeness(&want, &market_log(&o.record, &want), source, &c, out);
        rule_own_summary(i, o, &c, out);
    }
}

/// Per-run statistics for non-vacuity.
#[derive(Default)]
struct Stats {
    executions: AtomicU64,
    backtests: AtomicU64,
    batch_runs: AtomicU64,
    members_with_fills: AtomicU64,
    members_round_trip: AtomicU64,
    members_open_position: AtomicU64,
    members_fill_cut_by_shutdown: AtomicU64,
    oracle_evals: AtomicU64,
}

impl Stats {
    fn note(&self, o: &MemberOutcome) {
        self.backtests.fetch_add(1, Ordering::Relaxed);
        if !o.record.fills.is_empty() {
            self.members_with_fills.fetch_add(1, Ordering::Relaxed);
        }
        if o.record.pnl_realised.iter().any(|p| p != "0") {
            self.members_round_trip.fetch_add(1, Ordering::Relaxed);
        }
        if o.record.positions.iter().any(|p| p.is_some()) {
            self.members_open_position.fetch_add(1, Ordering::Relaxed);
        }
        if o.record.orders_sent.len() > o.record.fills.len() {
            self.members_fill_cut_by_shutdown.fetch_add(1, Ordering::Relaxed);
        }
    }
}

/// Reference run of one strategy alone (twice: reproducibility is part of R2). Returns the first outcome.
fn reference(instr: &[usize], source: &Source, s: Strat, stats: &Stats, distinct: &Distinct, out: &mut Vec<Viol>) -> Option<MemberOutcome> {
    let ctxs = format!("alone instr={} source={source:?} strategy={s:?}", instr_text(instr));
    let mut runs = Vec::new();
    for _ in 0..2 {
        stats.executions.fetch_add(1, Ordering::Relaxed);
        match execute(instr, source, &[s], Mode::Alone) {
            Ok(mut v) => runs.push(v.remove(0)),
            Err((kind, text)) => {
                out.push((format!("C20/R1-completeness-order/backtest-failed/{kind}"), format!("{ctxs}: {text}")));
                return None;
            }
        }
    }
    let first = runs.remove(0);
    stats.note(&first);
    distinct.add(&first.essence());
    stats.oracle_evals.fetch_add(3, Ordering::Relaxed);
    rule_completeness(&expected_log(instr), &market_log(&first.record, &expected_log(instr)), source, &ctxs, out);
    rule_own_summary(0, &first, &ctxs, out);
    rule_isolation("R2-isolation-sequential-runs", &runs[0], &first, &ctxs, out);
    Some(first)
}

/// Evaluate one batch against the references.
fn check_batch(instr: &[usize], source: &Source, members: &[Strat], refs: &BTreeMap<Strat, MemberOutcome>, stats: &Stats, distinct: &Distinct, out: &mut Vec<Viol>) {
    let ctxs = format!("batch instr={} source={source:?} members={members:?}", instr_text(instr));
    stats.executions.fetch_add(1, Ordering::Relaxed);
    stats.batch_runs.fetch_add(1, Ordering::Relaxed);
    let outcomes = match execute(instr, source, members, Mode::Batch) {
        Ok(v) => v,
        Err((kind, text)) => {
            out.push((format!("C20/R1-completeness-order/backtest-failed/{kind}"), format!("{ctxs}: {text}")));
            return;
        }
    };
    let want = expected_log(instr);
    for (i, o) in outcomes.iter().enumerate() {
        stats.note(o);
        distinct.add(&o.essence());
        stats.oracle_evals.fetch_add(3, Ordering::Relaxed);
        let c = format!("{ctxs} member={i}");
        rule_completeness(&want, &market_log(&o.record, &want), source, &c, out);
        rule_own_summary(i, o, &c, out);
        if let Some(r) = refs.get(&members[i]) {
            rule_isolation("R2-isolation-concurrent", o, r, &c, out);
        }
    }
}

// ------------------------------------------------------------------------------------------------
// Enumeration
// ------------------------------------------------------------------------------------------------

fn strategies(n: usize) -> Vec<Strat> {
    let mut v = vec![Strat::Idle];
    for buy in 1..=n {
        for sell in buy + 1..=n + 1 {
            v.push(Strat::Trade { buy, sell });
        }
    }
    v
}

fn product<T: Clone>(menu: &[T], len: usize) -> Vec<Vec<T>> {
    let mut acc: Vec<Vec<T>> = vec![vec![]];
    for _ in 0..len {
        acc = acc
            .into_iter()
            .flat_map(|p| {
                menu.iter().map(move |m| {
                    let mut q = p.clone();
                    q.push(m.clone());
                    q
                })
            })
            .collect();
    }
    acc
}

fn case_of(instr: &[usize], source: &Source, members: &[Strat]) -> Case {
    Case { instr: instr.to_vec(), source: source.clone(), members: members.to_vec(), mt_workers: 0, needs_parallel_context: false }
}

fn case_json(instr: &[usize], source: &Source, members: &[Strat]) -> Value {
    serde_json::to_value(Case { instr: instr.to_vec(), source: source.clone(), members: members.to_vec(), mt_workers: 0, needs_parallel_context: false }).unwrap()
}



/// Violation candidates found by the parallel sweep: per signature the occurrence count and the few
/// smallest cases for each member count. After the sweep each signature's candidates are re-run SERIALLY
/// (nothing else running in the process) and the smallest case that reproduces the signature on its own is
/// retained as the replay artefact; see `Case::needs_parallel_context` for the other situation.
#[derive(Default)]
struct Candidates {
    inner: Mutex<BTreeMap<String, (u64, Vec<((usize, String), String, Case)>)>>,
}

impl Candidates {
    const KEEP_PER_MEMBER_COUNT: usize = 3;
    fn report(&self, sig: String, detail: String, case: Case) {
        let text = serde_json::to_string(&case).unwrap();
        let rank = (text.len(), text);
        let mut g = self.inner.lock().unwrap();
        let e = g.entry(sig).or_insert_with(|| (0, Vec::new()));
        e.0 += 1;
        let same_n = e.1.iter().filter(|c| c.2.members.len() == case.members.len()).count();
        if same_n < Self::KEEP_PER_MEMBER_COUNT {
            e.1.push((rank, detail, case));
        } else if let Some(worst) = e
            .1
            .iter_mut()
            .filter(|c| c.2.members.len() == case.members.len())
            .max_by(|a, b| a.0.cmp(&b.0))
        {
            if rank < worst.0 {
                *worst = (rank, detail, case);
            }
        }
    }
}

/// The complete check of one case, serially: references (alone, twice) for every distinct member strategy,
/// then the batch. This is what `replay` executes.
fn check_case_serial(case: &Case, verbose: bool) -> Vec<Viol> {
    let stats = Stats::default();
    let distinct = Distinct::default();
    let mut out = Vec::new();
    if let Source::PacedPerMember(delays) = &case.source {
        check_hetero(&case.instr, delays, &case.members, &stats, &distinct, &mut out);
        return out;
    }
    let mut refs = BTreeMap::new();
    for s in case.members.iter().collect::<std::collections::BTreeSet<_>>() {
        if let Some(r) = reference(&case.instr, &case.source, *s, &stats, &distinct, &mut out) {
            if verbose {
                println!("reference alone {s:?}: {}", serde_json::to_string(&r).unwrap());
            }
            refs.insert(*s, r);
        }
    }
    // the layers that judge a burst-source batch by the timing-free rules only (many members, long datasets)
    let timing_free = case.source == Source::InMemory && (case.members.len() > 3 || (case.instr.len() > 16 && case.members.len() > 1));
    if timing_free {
        check_batch_timing_free(&case.instr, &case.source, &case.members, &stats, &distinct, &mut out);
    } else {
        check_batch(&case.instr, &case.source, &case.members, &refs, &stats, &distinct, &mut out);
    }
    out
}

/// The same check under concurrent load: 4 threads repeat the case while 4 threads keep running a trading
/// "noisy neighbour" batch (each execution on its own runtime) — the situation of the parallel sweep.
fn check_case_under_load(case: &Case) -> Vec<Viol> {
    let out = Mutex::new(Vec::new());
    let done = std::sync::atomic::AtomicBool::new(false);
    let neighbour_members = [Strat::Trade { buy: 1, sell: 2 }, Strat::Trade { buy: 2, sell: 3 }];
    std::thread::scope(|sc| {
        for _ in 0..4 {
            sc.spawn(|| {
                while !done.load(Ordering::SeqCst) {
                    let _ = execute(&[0, 1], &Source::Paced(vec![1, 250, 250]), &neighbour_members, Mode::Batch);
                }
            });
        }
        let checkers: Vec<_> = (0..4)
            .map(|_| {
                sc.spawn(|| {
                    for _ in 0..40 {
                        let v = check_case_serial(case, false);
                        out.lock().unwrap().extend(v);
                    }
                })
            })
            .collect();
        for c in checkers {
            let _ = c.join();
        }
        done.store(true, Ordering::SeqCst);
    });
    out.into_inner().unwrap()
}

/// Serial search of the small cases (n <= 2, quick menu, N <= 2) for one that shows `sig` on its own. Used only
/// when none of the sweep's candidates for `sig` reproduces serially.
fn serial_search(sig: &str) -> Option<(String, Case)> {
    for n in 1..=2usize {
        let strats = strategies(n);
        for instr in product(&[0usize, 1usize], n) {
            let mut sources: Vec<Source> = product(&MENU_QUICK, n + 1).into_iter().map(Source::Paced).collect();
            sources.push(Source::InMemory);
            for source in &sources {
                for members_n in 1..=2usize {
                    for members in product(&strats, members_n) {
                        let case = case_of(&instr, source, &members);
                        if let Some(v) = check_case_serial(&case, false).into_iter().find(|v| v.0 == sig) {
                            return Some((v.1, case));
                        }
                    }
                }
            }
        }
    }
    None
}

/// Auxiliary, NON-exhaustive smoke run on a real-time multi-thread runtime (the OS-thread interleavings of
/// tokio's scheduler cannot be enumerated from outside). Only the rules that hold for every schedule are
/// evaluated (R1 completeness/order, R3 summary is its own engine's); R2 is not (real-time races between
/// pacing and latency legitimately change which fills arrive before Shutdown).
fn check_mt_smoke(instr: &[usize], source: &Source, members: &[Strat], workers: usize, out: &mut Vec<Viol>) -> u64 {
    let ctxs = format!("mt-smoke workers={workers} instr={instr:?} source={source:?} members={members:?}");
    let outcomes = match execute_on(instr, source, members, Mode::Batch, workers) {
        Ok(v) => v,
        Err((kind, text)) => {
            out.push((format!("C20/mt-smoke/R1-completeness-order/backtest-failed/{kind}"), format!("{ctxs}: {text}")));
            return 0;
        }
    };
    let want = expected_log(instr);
    let mut local = Vec::new();
    for (i, o) in outcomes.iter().enumerate() {
        let c = format!("{ctxs} member={i}");
        rule_completeness(&want, &market_log(&o.record, &want), source, &c, &mut local);
        rule_own_summary(i, o, &c, &mut local);
    }
    out.extend(local.into_iter().map(|(sig, det)| (sig.replacen("C20/", "C20/mt-smoke/", 1), det)));
    outcomes.iter().filter(|o| !o.record.fills.is_empty()).count() as u64
}

fn mt_smoke(ctx: &Ctx) -> Value {
    let workers = 4usize;
    let n = 3usize;
    let strats = strategies(n);
    // (the last one: equal timestamps, then a `Reconnecting` entry)
    let patterns: Vec<Vec<usize>> = vec![vec![0, 1, 0], vec![1, 1, 0], vec![0, 3, CODE_RECONNECT], vec![CODE_FOREIGN_TRADE, 0, CODE_FOREIGN_RECONNECT]];
    // real-time pacings (ms); the tail of the last one lets responses (latency 4 ms) land before Shutdown
    let sources = vec![Source::InMemory, Source::Paced(vec![0, 0, 0, 0]), Source::Paced(vec![1, 0, 1, 0]), Source::Paced(vec![6, 6, 6, 12])];
    // member triples: every strategy appears, neighbours differ; `stride` thins the list in the quick tier
    let stride = ctx.tier.pick(3usize, 1usize);
    let triples: Vec<Vec<Strat>> = (0..strats.len())
        .step_by(stride)
        .map(|i| vec![strats[i], strats[(i + 1) % strats.len()], strats[(i + 3) % strats.len()]])
        .collect();
    let mut runs = 0u64;
    let mut members_with_fills = 0u64;
    let mut sigs = Vec::new();
    for instr in &patterns {
        for source in &sources {
            for members in &triples {
                let mut out = Vec::new();
                members_with_fills += check_mt_smoke(instr, source, members, workers, &mut out);
                runs += 1;
                for (sig, detail) in out {
                    sigs.push(sig.clone());
                    let mut case = Case { instr: instr.clone(), source: source.clone(), members: members.clone(), mt_workers: workers, needs_parallel_context: false };
                    ctx.violate(sig, detail, serde_json::to_value(&case).unwrap());
                    case.mt_workers = workers;
                }
            }
        }
    }
    sigs.sort();
    sigs.dedup();
    json!({
        "non_exhaustive": true,
        "decides_property": false,
        "runtime": format!("multi-thread, {workers} workers, real time"),
        "batch_runs": runs,
        "members_with_fills": members_with_fills,
        "rules": "R1 completeness/order and R3 own-summary only (timing independent)",
        "violation_signatures": sigs,
    })
}

/// Dataset of the long-dataset layer: instruments alternate; every 7th entry is a `Reconnecting` one (never
/// the first or the last entry).
fn long_instr(n: usize) -> Vec<usize> {
    (0..n).map(|i| if i % 7 == 6 && i + 1 < n { CODE_RECONNECT } else { i % 2 }).collect()
}

/// Dataset description for messages (long ones abbreviated).
fn instr_text(instr: &[usize]) -> String {
    if instr.len() <= 16 { format!("{instr:?}") } else { format!("<{} entries: {:?}..>", instr.len(), &instr[..8]) }
}

/// Long datasets. The exhaustive sweep in `run` never exceeds 4 events, so defects that depend on the
/// dataset *length* (chunking, batching, buffer boundaries) are out of its reach. This layer (a) pulls
/// the real `MarketDataInMemory::stream` for EVERY dataset length 1..=L and compares the yielded events
/// with the dataset, and (b) runs the whole real `backtest()` (in-memory source, idle strategy and one
/// trading strategy) at lengths around powers of two and checks the engine's market log (rule R1).
fn long_datasets(ctx: &Ctx) -> Value {
    use rayon::prelude::*;
    let lmax = ctx.tier.pick(2600usize, 9000usize);
    let src = Source::InMemory;
    // beyond `lmax`: the lengths around every power of two and of ten up to 2^17 (buffer / chunk / index-width
    // boundaries); each of them is checked completely (every yielded event compared with the dataset)
    let mut stream_lengths: Vec<usize> = (1..=lmax).collect();
    let kmax = ctx.tier.pick(16u32, 17u32);
    for k in 8..=kmax {
        stream_lengths.extend([(1usize << k) - 1, 1 << k, (1 << k) + 1]);
    }
    for k in 3..=5u32 {
        stream_lengths.extend([10usize.pow(k) - 1, 10usize.pow(k), 10usize.pow(k) + 1]);
    }
    // longest first (they dominate the cost: start them first)
    stream_lengths.sort_by(|a, b| b.cmp(a));
    stream_lengths.dedup();
    let events_compared: usize = stream_lengths.iter().sum();
    let stream_violations: Vec<(usize, Vec<Viol>)> = stream_lengths
        .par_iter()
        .filter_map(|&n| {
            // every 7th event is followed by a `Reconnecting` entry when the position allows (code 8): the
            // real stream must yield those too
            let instr = long_instr(n);
            let data = MarketDataInMemory::new(Arc::new(dataset(&instr)));
            let got: Vec<MEv> = futures::executor::block_on(async {
                match data.stream().await {
                    Ok(s) => s.map(|e| mev_of(&e)).collect::<Vec<_>>().await,
                    Err(_) => vec![],
                }
            });
            let mut out = Vec::new();
            rule_completeness(&expected_log(&instr), &got, &src, &format!("MarketDataInMemory::stream of a {n}-event dataset"), &mut out);
            // the detail of a long dataset is huge: keep only the head of it
            let out: Vec<Viol> = out.into_iter().map(|(s, d)| (format!("{s}/long-dataset"), d.chars().take(300).collect())).collect();
            if out.is_empty() { None } else { Some((n, out)) }
        })
        .collect();
    let mut stream_violations = stream_violations;
    stream_violations.sort_by_key(|v| v.0);
    let mut first_bad_len = None;
    for (n, viols) in &stream_violations {
        if first_bad_len.is_none() {
            first_bad_len = Some(*n);
        }
        let instr = long_instr(*n);
        for (sig, detail) in viols {
            // only the shortest failing length carries the (large) replay case
            if Some(*n) == first_bad_len {
                ctx.violate(sig.clone(), format!("dataset length {n}: {detail}"), case_json(&instr, &src, &[Strat::Idle]));
            } else {
                ctx.violations.bump(sig);
            }
        }
    }
    let lengths: Vec<usize> = if ctx.tier == crate::core::Tier::Thorough {
        vec![255, 256, 257, 1023, 1024, 1025, 2047, 2048, 2049, 4096, 4097, 8193, 16385, 32769, 65535, 65536, 65537, 100001, 131073]
    } else {
        vec![16385, 4097, 2049, 1025, 1024, 1023]
    };
    let whole: Vec<(usize, Vec<Viol>)> = lengths
        .par_iter()
        .map(|&n| {
            let instr = long_instr(n);
            let mut out = Vec::new();
            // buys on the first trade, sells on the last one
            let trades = instr.iter().filter(|c| **c != CODE_RECONNECT).count();
            for strat in [Strat::Idle, Strat::Trade { buy: 1, sell: trades }] {
                let ctxs = format!("alone, {n}-event in-memory dataset, strategy={strat:?}");
                match execute(&instr, &src, &[strat], Mode::Alone) {
                    Ok(v) => rule_completeness(&expected_log(&instr), &market_log(&v[0].record, &expected_log(&instr)), &src, &ctxs, &mut out),
                    Err((kind, text)) => out.push((format!("C20/R1-completeness-order/backtest-failed/{kind}"), format!("{ctxs}: {text}"))),
                }
            }
            (n, out.into_iter().map(|(s, d)| (format!("{s}/long-dataset"), d.chars().take(300).collect::<String>())).collect())
        })
        .collect();
    for (n, viols) in &whole {
        let instr = long_instr(*n);
        for (sig, detail) in viols {
            ctx.violate(sig.clone(), format!("dataset length {n}: {detail}"), case_json(&instr, &src, &[Strat::Idle]));
        }
    }
    // long datasets x concurrent members (a bounded buffer shared by a batch shows only when both are large):
    // three members through run_backtests (burst source), rules R1 and R3
    let batch_lengths: Vec<usize> = ctx.tier.pick(vec![4097, 1025, 257], vec![65537, 16385, 4097, 1025, 257]);
    let batch_viols: Vec<(Viol, Value)> = batch_lengths
        .par_iter()
        .flat_map_iter(|&n| {
            let instr = long_instr(n);
            let trades = instr.iter().filter(|c| **c != CODE_RECONNECT).count();
            let members = [Strat::Idle, Strat::Trade { buy: 1, sell: trades }, Strat::Trade { buy: 2, sell: 3 }];
            let json = case_json(&instr, &src, &members);
            let (stats, distinct) = (Stats::default(), Distinct::default());
            let mut out = Vec::new();
            check_batch_timing_free(&instr, &src, &members, &stats, &distinct, &mut out);
            out.into_iter()
                .map(move |(s, d)| ((format!("{s}/long-dataset"), format!("dataset length {n}: {}", d.chars().take(300).collect::<String>())), json.clone()))
                .collect::<Vec<_>>()
        })
        .collect();
    for ((sig, detail), case) in batch_viols {
        ctx.violate(sig, detail, case);
    }
    json!({
        "batch_of_3_lengths": batch_lengths,
        "in_memory_stream_lengths_checked": format!("every length 1..={lmax}, plus 2^k-1, 2^k, 2^k+1 (k=8..{kmax}) and 10^k-1, 10^k, 10^k+1 (k=3..5); datasets hold a Reconnecting entry after every 7th position"),
        "in_memory_stream_lengths": stream_lengths.len(),
        "in_memory_stream_events_compared": events_compared,
        "whole_backtest_lengths": lengths,
        "whole_backtests_run": lengths.len() * 2,
    })
}

/// One batch whose members are paced differently, each compared with itself run alone under its own pacing.
fn check_hetero(instr: &[usize], delays: &[Vec<u64>], members: &[Strat], stats: &Stats, distinct: &Distinct, out: &mut Vec<Viol>) {
    let source = Source::PacedPerMember(delays.to_vec());
    let ctxs = format!("batch instr={instr:?} per-member pacing={delays:?} members={members:?}");
    stats.executions.fetch_add(1, Ordering::Relaxed);
    stats.batch_runs.fetch_add(1, Ordering::Relaxed);
    let outcomes = match execute(instr, &source, members, Mode::Batch) {
        Ok(v) => v,
        Err((kind, text)) => {
            out.push((format!("C20/R1-completeness-order/backtest-failed/{kind}"), format!("{ctxs}: {text}")));
            return;
        }
    };
    let want = expected_log(instr);
    for (i, o) in outcomes.iter().enumerate() {
        stats.note(o);
        distinct.add(&o.essence());
        let c = format!("{ctxs} member={i}");
        rule_completeness(&want, &market_log(&o.record, &want), &source, &c, out);
        rule_own_summary(i, o, &c, out);
    }
    // R2. The source hands pacing vector k to the k-th `stream()` call of the batch, and which member makes
    // that call is the implementation's business (members started in another order are as good). So: some
    // one-to-one assignment of the pacing vectors to the members must make EVERY member equal to itself alone
    // under its assigned pacing. The identity assignment is tried first (the only one needed on the unchanged
    // tree); if no assignment fits, the differences under the identity assignment are reported.
    let n = members.len();
    let mut cache: BTreeMap<(usize, usize), Result<MemberOutcome, (String, String)>> = BTreeMap::new();
    let mut first: Option<Vec<Viol>> = None;
    for perm in itertools::Itertools::permutations(0..n, n) {
        let mut viols = Vec::new();
        for (i, o) in outcomes.iter().enumerate() {
            let k = perm[i];
            let c = format!("{ctxs} member={i}");
            let alone = cache.entry((i, k)).or_insert_with(|| {
                stats.executions.fetch_add(1, Ordering::Relaxed);
                execute(instr, &Source::Paced(delays[k].clone()), &[members[i]], Mode::Alone).map(|mut v| v.remove(0))
            });
            match alone {
                Ok(alone) => {
                    stats.oracle_evals.fetch_add(3, Ordering::Relaxed);
                    let mut tmp = Vec::new();
                    rule_isolation("R2-isolation-concurrent", o, alone, &c, &mut tmp);
                    viols.extend(tmp.into_iter().map(|(s, d)| (format!("{s}/members-paced-differently"), d)));
                }
                Err((kind, text)) => viols.push((format!("C20/R1-completeness-order/backtest-failed/{kind}"), format!("{c} alone: {text}"))),
            }
        }
        if viols.is_empty() {
            return;
        }
        first.get_or_insert(viols);
    }
    out.extend(first.unwrap_or_default());
}

/// Heterogeneous pacing: concurrent members that are NOT in lock-step (the `task interleavings` dimension of
/// the statement on a single thread): every dataset of n events x every ordered pair of pacing vectors x
/// every ordered pair of strategies; each member must equal itself alone under its own pacing.
fn hetero_pacing(ctx: &Ctx, stats: &Stats, distinct: &Distinct) -> Value {
    use rayon::prelude::*;
    let n_h = ctx.tier.pick(2usize, 3usize);
    let mut units: Vec<(Vec<usize>, Vec<u64>, Vec<u64>)> = Vec::new();
    for n in 1..=n_h {
        let pacings: Vec<Vec<u64>> = product(&MENU_QUICK, n + 1).into_iter().filter(|p| p[0] > 0).collect();
        for instr in product(&[0usize, 1usize], n) {
            for p0 in &pacings {
                for p1 in &pacings {
                    if p0 != p1 {
                        units.push((instr.clone(), p0.clone(), p1.clone()));
                    }
                }
            }
        }
    }
    let batches = AtomicU64::new(0);
    let viols: Vec<(Viol, Value)> = units
        .par_iter()
        .flat_map_iter(|(instr, p0, p1)| {
            let n = instr.len();
            let strats = strategies(n);
            let mut found = Vec::new();
            for s0 in &strats {
                for s1 in &strats {
                    let mut out = Vec::new();
                    let delays = vec![p0.clone(), p1.clone()];
                    check_hetero(instr, &delays, &[*s0, *s1], stats, distinct, &mut out);
                    batches.fetch_add(1, Ordering::Relaxed);
                    for v in out {
                        found.push((v, case_json(instr, &Source::PacedPerMember(delays.clone()), &[*s0, *s1])));
                    }
                }
            }
            found
        })
        .collect();
    for ((sig, detail), case) in viols {
        ctx.violate(sig, detail, case);
    }
    json!({"max_events": n_h, "units_dataset_x_pacing_pair": units.len(), "batches": batches.load(Ordering::Relaxed),
        "rule": "N=2 members with different pacing vectors (all ordered pairs from the menu), all ordered strategy pairs; under some one-to-one assignment of the pacing vectors to the members every member == itself alone under its pacing (identity tried first)"})
}

/// Many concurrent members. The main sweep stops at N = 3; `run_backtests` joins its members with
/// `futures::future::try_join_all`, which switches from polling every member in turn to a `FuturesOrdered`
/// (wake-order polling) above 30 members - a different interleaving of the members' tasks. A few datasets and
/// sources are therefore also run with N in {4, 8, 31, 32, 64} members (strategies assigned cyclically with an
/// offset, so neighbours differ and every strategy occurs), each member judged by R1/R3 and - for the paced,
/// tie-free sources - by R2 against the same strategy alone (see `check_batch_timing_free` for the burst source).
fn many_members(ctx: &Ctx, stats: &Stats, distinct: &Distinct) -> Value {
    let datasets: Vec<Vec<usize>> = vec![vec![0, 1], vec![1, 1, 0], vec![0, CODE_RECONNECT, 1]];
    let member_counts: Vec<usize> = ctx.tier.pick(vec![4, 8, 32], vec![4, 5, 8, 16, 30, 31, 32, 64]);
    let mut units: Vec<(Vec<usize>, Source)> = Vec::new();
    for instr in &datasets {
        let n = instr.len();
        let mut stall_tail = vec![1u64; n + 1];
        stall_tail[n] = STALL_MS;
        for source in [Source::InMemory, Source::Paced(vec![1; n + 1]), Source::Paced(vec![250; n + 1]), Source::Paced(vec![30; n + 1]), Source::Paced(stall_tail)] {
            units.push((instr.clone(), source));
        }
    }
    let batches = AtomicU64::new(0);
    let viols: Vec<(Viol, Value)> = units
        .par_iter()
        .flat_map_iter(|(instr, source)| {
            let strats = strategies(instr.len());
            let mut found: Vec<(Viol, Value)> = Vec::new();
            let mut refs = BTreeMap::new();
            for s in &strats {
                let mut out = Vec::new();
                if let Some(r) = reference(instr, source, *s, stats, distinct, &mut out) {
                    refs.insert(*s, r);
                }
                found.extend(out.into_iter().map(|v| (v, case_json(instr, source, &[*s]))));
            }
            for &count in &member_counts {
                for offset in 0..2usize {
                    let members: Vec<Strat> = (0..count).map(|i| strats[(i * (offset + 1) + offset) % strats.len()]).collect();
                    let mut out = Vec::new();
                    if *source == Source::InMemory {
                        check_batch_timing_free(instr, source, &members, stats, distinct, &mut out);
                    } else {
                        check_batch(instr, source, &members, &refs, stats, distinct, &mut out);
                    }
                    batches.fetch_add(1, Ordering::Relaxed);
                    found.extend(out.into_iter().map(|v| (v, case_json(instr, source, &members))));
                }
            }
            found
        })
        .collect();
    for ((sig, detail), case) in viols {
        ctx.violate(sig, detail, case);
    }
    json!({"member_counts": member_counts, "datasets": datasets, "units_dataset_x_source": units.len(), "batches": batches.load(Ordering::Relaxed),
        "rule": "N concurrent members (strategies assigned cyclically, two offsets) through run_backtests; R1 and R3 for every member; R2 (each member == the same strategy alone) for the paced sources (tie-free), not for the burst source"})
}

pub fn run(ctx: &Ctx) -> Outcome {
    let n_max = ctx.tier.pick(3usize, 4usize);
    // thorough: the 4-value menu (with burst delay 0) for n <= 3, the 3-value menu at n = 4
    let menu_for = |n: usize| -> Vec<u64> {
        if ctx.tier == crate::core::Tier::Thorough && n <= 3 { MENU_THOROUGH.to_vec() } else { MENU_QUICK.to_vec() }
    };
    // sanity of the no-tie claim: no run of consecutive delays sums to the latency
    for n in 1..=n_max {
        for len in 1..=n + 1 {
            for p in product(&menu_for(n), len) {
                assert_ne!(p.iter().sum::<u64>(), LATENCY_MS, "pacing menu creates a deadline tie: {p:?}");
            }
        }
    }

    let stats = Stats::default();
    let distinct = Distinct::default();
    let samples = Samples::new(6);
    let candidates = Candidates::default();
    // (dataset, source, cap on the number of concurrent members; 0 = the main sweep's own rule)
    let mut units: Vec<(Vec<usize>, Source, usize)> = Vec::new();
    let mut per_n = Vec::new();
    let mut shape_units = 0usize;
    for n in 1..=n_max {
        let patterns = product(&[0usize, 1usize], n);
        // The first delay is never 0: the initial account snapshot then reaches the engine before the first
        // market event, as in any real run (otherwise `HistoricalClock`'s wall-clock deltas decide whether
        // the first fill's balance is "newer" than the snapshot's, which no timing-free oracle can judge).
        let mut pacings = product(&menu_for(n), n + 1)
            .into_iter()
            .filter(|p| p[0] > 0)
            .map(Source::Paced)
            .collect::<Vec<_>>();
        pacings.push(Source::InMemory);
        // stalled streams: a 6-hour virtual delay at each position (before event i / before end-of-stream)
        for pos in 0..=n {
            let mut p = vec![1u64; n + 1];
            p[pos] = STALL_MS;
            pacings.push(Source::Paced(p));
        }
        per_n.push(json!({"n": n, "instrument_patterns": patterns.len(), "sources": pacings.len(), "strategies": strategies(n).len()}));
        for p in &patterns {
            for s in &pacings {
                units.push((p.clone(), s.clone(), 0));
            }
        }
        // Dataset shapes: every dataset of n events over the full code alphabet (equal / decreasing
        // timestamps, exact duplicates, `Reconnecting` entries) that is not already a plain one, under a
        // burst source (the real MarketDataInMemory) and two paced ones (responses land after / between the
        // events), every strategy alone and every ordered pair of strategies.
        let n_shape = ctx.tier.pick(3usize, 4usize);
        if n <= n_shape {
            let shape_sources = [Source::InMemory, Source::Paced(vec![1; n + 1]), Source::Paced(vec![250; n + 1])];
            for p in product(&CODES_ALL, n).into_iter().filter(|p| p.iter().any(|c| *c > 1)) {
                // a dataset must hold at least one trade (MarketDataInMemory::new requires it)
                if p.iter().all(|c| *c == CODE_RECONNECT) {
                    continue;
                }
                // pairs of concurrent members below the largest size, single members at the largest size
                let cap = if n >= n_shape { 1 } else { 2 };
                for s in &shape_sources {
                    units.push((p.clone(), s.clone(), cap));
                    shape_units += 1;
                }
            }
        }
    }

    // Several exchanges: every dataset of n <= 3 (thorough 4) entries over {trade on the 2 mocked instruments,
    // trade on / Reconnecting of the second, unlinked exchange} that holds an entry of the second exchange and
    // at least one trade, under the burst source and two paced ones; member caps as for the dataset shapes.
    let mut multi_exchange_units = 0usize;
    {
        let n_multi = ctx.tier.pick(3usize, 4usize);
        for n in 1..=n_multi {
            let sources = [Source::InMemory, Source::Paced(vec![1; n + 1]), Source::Paced(vec![250; n + 1])];
            for p in product(&CODES_MULTI_EXCHANGE, n).into_iter().filter(|p| foreign_layout(p)) {
                if p.iter().all(|c| *c == CODE_FOREIGN_RECONNECT) {
                    continue;
                }
                let cap = if n >= n_multi { 1 } else { 2 };
                for s in &sources {
                    units.push((p.clone(), s.clone(), cap));
                    multi_exchange_units += 1;
                }
            }
        }
    }

    units.par_iter().for_each(|(instr, source, cap)| {
        let n = instr.len();
        let strats = strategies(n);
        let mut viols: Vec<(Viol, Case)> = Vec::new();
        let mut refs = BTreeMap::new();
        for s in &strats {
            let mut out = Vec::new();
            if let Some(r) = reference(instr, source, *s, &stats, &distinct, &mut out) {
                refs.insert(*s, r);
            }
            viols.extend(out.into_iter().map(|v| (v, case_of(instr, source, &[*s]))));
        }
        // N=3 over every ordered assignment is the dominant cost: at the largest dataset size N=3 is run only
        // for the datasets whose first event is on instrument 0 (the mirror images are covered for N<=2).
        let max_members = if *cap > 0 { *cap } else if n == n_max && n >= 3 && instr[0] == 1 { 2 } else { 3 };
        for members_n in 1..=max_members {
            let mut assignments = product(&strats, members_n);
            if members_n == 3 && n >= 4 {
                // thorough, largest size: non-decreasing triples and their reversals instead of all 11^3 orders
                // (every ordered triple is run for n <= 3, every ordered pair for all n)
                let sorted: Vec<Vec<Strat>> = assignments.into_iter().filter(|m| m[0] <= m[1] && m[1] <= m[2]).collect();
                assignments = sorted
                    .iter()
                    .cloned()
                    .chain(sorted.iter().filter(|m| m[0] != m[2]).map(|m| m.iter().rev().cloned().collect()))
                    .collect();
            }
            for members in assignments {
                let mut out = Vec::new();
                check_batch(instr, source, &members, &refs, &stats, &distinct, &mut out);
                viols.extend(out.into_iter().map(|v| (v, case_of(instr, source, &members))));
            }
        }
        for ((sig, detail), case) in viols {
            candidates.report(sig, detail, case);
        }
    });
    // Serial confirmation of every signature (the sweep is over: nothing else runs in the process now).
    for (sig, (count, mut cands)) in candidates.inner.into_inner().unwrap() {
        cands.sort_by(|a, b| a.0.cmp(&b.0));
        let confirmed = cands.iter().find(|c| check_case_serial(&c.2, false).iter().any(|v| v.0 == sig));
        let (detail, case) = match confirmed.map(|c| (c.1.clone(), c.2.clone())).or_else(|| serial_search(&sig)) {
            Some(found) => found,
            None => {
                let c = &cands[0];
                let mut case = c.2.clone();
                case.needs_parallel_context = true;
                (format!("{} [not reproduced by a serial re-run of this or any small case: observed only while other backtests were running on other threads of the process — interference through process-global state]", c.1), case)
            }
        };
        ctx.violate(sig.clone(), detail, serde_json::to_value(&case).unwrap());
        for _ in 1..count {
            ctx.violations.bump(&sig);
        }
    }

    // deterministic samples: a few cases spread over the unit list, re-executed serially with their outcome
    for k in 0..6usize {
        let (instr, source, _) = &units[(units.len() - 1) * k / 5];
        let strats = strategies(instr.len());
        let members: Vec<Strat> = (0..(k % 3) + 1).map(|j| strats[(k + 2 * j + 1) % strats.len()]).collect();
        let observed = execute(instr, source, &members, Mode::Batch).ok().map(|v| {
            v.iter()
                .map(|o| json!({"market_events_seen": o.record.market.len(), "fills": o.record.fills.len(), "orders_sent": o.record.orders_sent,
                                "positions": o.record.positions, "realised_pnl": o.record.pnl_realised, "summary": o.summary}))
                .collect::<Vec<_>>()
        });
        samples.offer(|| json!({"case": case_json(instr, source, &members), "observed": observed}));
    }

    let hetero = hetero_pacing(ctx, &stats, &distinct);
    let long = long_datasets(ctx);
    let many = many_members(ctx, &stats, &distinct);
    let smoke = mt_smoke(ctx);

    let g = |a: &AtomicU64| a.load(Ordering::Relaxed);
    if g(&stats.members_with_fills) == 0 || g(&stats.members_round_trip) == 0 || g(&stats.members_fill_cut_by_shutdown) == 0 {
        // vacuity guard: the harness must reach fills, closed round trips and cut-off responses
        if ctx.violations.len() == 0 {
            eprintln!("MACHINERY: C20 exploration is vacuous (no fills / round trips / cut-off responses reached)");
            std::process::exit(2);
        }
    }
    Outcome {
        level: "exploration",
        coverage: json!({
            "evaluations": g(&stats.executions),
            "batch_runs": g(&stats.batch_runs),
            "backtests_observed": g(&stats.backtests),
            "oracle_evaluations": g(&stats.oracle_evals),
            "distinct_nontrivial": distinct.len(),
            "members_with_fills": g(&stats.members_with_fills),
            "members_with_closed_round_trip": g(&stats.members_round_trip),
            "members_with_open_final_position": g(&stats.members_open_position),
            "members_with_response_cut_off_by_shutdown": g(&stats.members_fill_cut_by_shutdown),
            "comparisons_where_only_the_id_labels_differed": ID_LABELS_ONLY_DIFFER.load(Ordering::Relaxed),
            "units_dataset_x_source": units.len(),
            "per_n": per_n,
            "n_max": n_max,
            "pacing_menu_ms_by_n": (1..=n_max).map(|n| json!({"n": n, "menu": menu_for(n)})).collect::<Vec<_>>(),
            "latency_ms": LATENCY_MS,
            "max_concurrent_members": 3,
            "bounds": {
                "dataset_sizes": format!("1..={n_max}"),
                "instrument_patterns": "all 2^n",
                "pacings": "menu^(n+1) with first delay > 0, plus the real MarketDataInMemory, plus a 6-hour (virtual) stall at each of the n+1 positions",
                "dataset_shapes": "every dataset of n <= 3 (thorough 4) entries over {trade on 2 instruments stamped later / equal / one hour earlier than the previous trade, exact duplicate of the previous trade, Reconnecting} x {MarketDataInMemory, all delays 1 ms, all delays 250 ms} x every strategy alone (twice) and as a batch of one; below the largest n also every ordered pair of strategies",
                "several_exchanges": "every dataset of n <= 3 (thorough 4) entries over {trade on the 2 mocked instruments, trade on the instrument of a second exchange without execution, Reconnecting of that exchange} with at least one entry of the second exchange x {MarketDataInMemory, all delays 1 ms, all delays 250 ms}; three-instrument layout, the unlinked exchange first (ExchangeIndex 0, InstrumentIndex 0); members as for dataset_shapes",
                "strategies": "idle + buy@b/sell@s for all 1<=b<s<=n+1",
                "members": "N=1,2: every ordered assignment for every dataset; N=3: every ordered assignment (n<=3), non-decreasing triples + reversals (n=4); at n=n_max N=3 only for datasets starting on instrument 0",
            },
            "exhaustive": true,
            "rule": "every dataset (instrument pattern) x every pacing vector (menu^(n+1)) + real MarketDataInMemory x every ordered assignment of strategies to N in {1,2,3} members, each executed by the real backtest()/run_backtests() on a paused current-thread runtime; R1 completeness/order (the engine's log equals the dataset entry by entry, including each event's exchange time, exchange, side and amount), R2 member-in-batch == same member alone (and alone twice), R3 summary is its own engine's",
            "samples": samples.take(),
            "heterogeneous_pacing_layer": hetero,
            "long_dataset_layer": long,
            "many_members_layer": many,
            "dataset_shape_units": shape_units,
            "several_exchanges_units": multi_exchange_units,
            "stall_ms": STALL_MS,
            "auxiliary_multithread_smoke": smoke,
        }),
        assumptions: vec![
            "strategies decide from the number of market events seen only (timing-independent class of the statement)".into(),
            "pacing menus avoid coinciding virtual deadlines (asserted at start); multi-thread scheduler interleavings are not enumerated: on a current-thread runtime with paused time the only freedom is the relative order of market events and execution responses in the engine feed, which the pacing vectors enumerate".into(),
            "one mocked exchange, two spot instruments (several-exchanges layer: plus one instrument of a second exchange without execution, which the strategies never trade), market orders of quantity 1, balances never exhausted, no disconnects and no fatal engine errors in the explored runs".into(),
            "N=3 at the largest dataset size (n=3 quick, n=4 thorough) only for datasets starting on instrument 0; all smaller sizes: every dataset x N<=3; at n=4 the N=3 assignments are the non-decreasing strategy triples and their reversals (all ordered triples for n<=3, all ordered pairs for every n)".into(),
            "the first market event is delivered a positive virtual delay after system start, i.e. after the initial account snapshot".into(),
            "the timestamps carried by the market events themselves are dataset values that no clock touches: the exchange time is compared exactly in R1, the receipt time (exchange time + 5 s in every dataset) is not compared; timestamps produced by the backtest's clock are excluded from compared outcomes (HistoricalClock adds wall-clock deltas) except for the whole hour of a fill's exchange time; dataset timestamps are whole hours (main sweep: strictly increasing; dataset-shape layer: also equal and decreasing), so wall-clock jitter cannot move an exchange timestamp into another hour".into(),
            "a `Reconnecting` entry of the dataset is observed through the engine's call of the strategy's on_disconnect hook; the mock account stream never reconnects in the explored runs, so every such call stems from a market entry; an entry about a link that is already down (repeated notice / before the exchange's first item) may be missing from that log if the number of events the engine processed (one strategy consultation each) shows that every Reconnecting entry was fed".into(),
            "exchange-assigned trade / order ids are compared up to a consistent renaming within a backtest (ids need not be reproducible from one solo run to the next); comparisons where only the raw labels differed are counted in the coverage".into(),
            "stalled sources are modelled by one 6-hour virtual delay; a shutdown that gives up on the stream later than that is not distinguished from one that waits for ever".into(),
        ],
    }
}

pub fn replay(ctx: &Ctx, case: &Value) {
    let case_v = case.clone();
    let case: Case = match serde_json::from_value(case.clone()) {
        Ok(c) => c,
        Err(e) => {
            eprintln!("MACHINERY: C20 replay: bad case: {e}");
            std::process::exit(2)
        }
    };
    let mut out = Vec::new();
    if case.mt_workers > 0 {
        // non-deterministic schedule: repeat a few times
        for _ in 0..20 {
            check_mt_smoke(&case.instr, &case.source, &case.members, case.mt_workers, &mut out);
        }
    } else {
        // The sweep runs both instrument layouts (two instruments / three with an unlinked exchange first) in
        // one process. A defect that couples backtests through process-global state keyed by configuration
        // (something built once per exchange and re-used) shows only when a backtest of the OTHER layout ran
        // before; on code where backtests do not affect one another this warm-up changes nothing.
        let other: Vec<usize> = if foreign_layout(&case.instr) { vec![0, 1] } else { vec![CODE_FOREIGN_TRADE, 0] };
        let _ = execute(&other, &Source::Paced(vec![1; other.len() + 1]), &[Strat::Trade { buy: 1, sell: 2 }], Mode::Alone);
        out = check_case_serial(&case, case.instr.len() <= 16);
        if case.instr.len() > 16 {
            // found by the long-dataset layer, whose signatures carry its name
            out = out.into_iter().map(|(s, d)| (format!("{s}/long-dataset"), d.chars().take(300).collect())).collect();
        }
        if out.is_empty() && case.needs_parallel_context {
            println!("serial re-run clean; re-running under concurrent load (4 checker threads x 40 repetitions, 4 noisy-neighbour threads)");
            out = check_case_under_load(&case);
        }
    }
    for (sig, detail) in out {
        ctx.violate(sig, detail, case_v.clone());
    }
}
