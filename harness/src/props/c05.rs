//! C05 — Local L2 order book equals a price->amount map after any event sequence.
//!
//! Layer 1 (decides the property): explicit-state BFS to FIXPOINT over the real `OrderBook`. The BFS
//! state IS the real object (wrapped for hashing); every transition clones it, applies one
//! `OrderBookEvent` through the real `OrderBook::update` and compares all observers named by the
//! statement with a reference written from the statement: two `BTreeMap<price, amount>` fed with the
//! raw (unsorted) level lists of the event in list order.
//!
//! Alphabet (per model, see `M::new`): a small price table per side, amounts {0, 5, 7}; `Update`
//! events with short level lists per side in ANY order, including the same price twice, zero amounts
//! for absent levels, inserts at front / middle / back; `Snapshot` events with any subset of the
//! prices at non-zero amounts in unsorted order (well-formed snapshots only: distinct prices, positive
//! amounts); sequence numbers from a 3-value set so that the sequence goes down, stays and goes up.
//! Model "scales" uses price/amount literals of different decimal scale (1, 1.0, 1.00) which must be
//! the same level; model "cross" has OVERLAPPING bid / ask price ranges (crossed and locked books: the two
//! sides are independent maps) and the sequence numbers 0, 2 and u64::MAX; model "fine" has prices that
//! differ only in the 12th decimal place next to a 10^7 price and an amount of 10^-28 (not zero).
//!
//! When a transition violates a rule the search reports it (signature = rule + abstract cause) and continues
//! from the REFERENCE state (a well-formed book holding the map), so the explored space stays finite under
//! any defect and a second defect is still found. The derived observers (mid, vw-mid, snapshot) are judged
//! only when the level lists are right, so one level defect is not repeated under four other names.
//! The BFS itself is `bfs_stream` below: same semantics / case format as `explore::bfs::run`, but it
//! does not materialise every (action, successor) pair of a level (10^8 transitions in the thorough tier).
//!
//! Layer 2 (routing): events driven through the real `OrderBookL2Manager::run` (manually polled future,
//! harness-owned channel) with an `OrderBookMapMulti` of two instruments, an un-configured third key and
//! `Reconnecting` notices: every delivery sequence of length <= d. After every delivery the book of each
//! configured instrument must equal the real `OrderBook` folded directly over ITS OWN events (book
//! semantics are layer 1's business), i.e. each event lands in the book of its instrument only, and `run`
//! must not end while its stream is open. The same with an `OrderBookMapSingle` (one configured instrument,
//! two foreign keys; signatures `C05/manager-single/..`). Every sequence of >= 2 deliveries is also handed
//! over as a BURST (all queued before the manager is first polled): the books must be the same fold.
//!
//! Layer 3: configuration sweep over LONG updates (2..=40 levels on one side, thorough up to 100; one price
//! listed twice at every pair of positions, three filler orders, with / without the level pre-existing) —
//! `OrderBook::new` sorts the level list with `sort_unstable_by`, which keeps equal prices in list order
//! only for short lists; the statement quantifies over "duplicates of a price within one update".
//!
//! Layer 4: BIG books - for every length n in 1..=1100 (thorough 5200) and each side a snapshot of n levels and
//! one update touching the far end, the front, the middle and an absent price (a map has no maximum depth).
//!
//! Layer 5: reader contention - a reader of the shared book holds it while the manager is handed an event for
//! it (second thread, deterministic barrier): after the reader has left the book is the event applied.
//!
//! Layer 6: WIDE updates - one update of n levels for one side (every n to 70, then around every power of two /
//! round number to 1100, thorough 10001): scrambled order, deletes of present and absent levels, replacements,
//! inserts, the last entry repeating the first entry's price (a map has no maximum number of entries per update).
//! Layer 4 now also loads the OTHER side with n levels (2n levels in all; that side must stay as it is).
//!
//! Layer 7: LONG histories - one deterministic history of 2600 (thorough 21000) deliveries through the real
//! manager with both map kinds, one by one (books against price->amount maps after every delivery) and all
//! queued before the first poll (judged at the end; every event leaves a permanent trace in the book, so a lost
//! one still shows then).
//!
//! Model "fine" also holds, on each side, two prices that differ only beyond the precision of a binary double.
//!
//! Oracle rules (each from a sentence of the statement):
//!  R-levels    "holds exactly the price levels a price-to-amount map would hold (zero deletes, any other
//!              amount sets, deleting an absent level is a no-op), bids strictly descending, asks strictly
//!              ascending, no price twice"
//!  R-sequence  "the book's sequence is that of the last applied event"
//!  R-mid       "best bid/ask, mid-price ... are those of that map" (two-sided: (bb+ba)/2; one-sided:
//!              the statement does not define a mid price -> None or the only best price accepted; empty: None)
//!  R-vwmp      "volume-weighted mid-price" of the map's best levels (either weighting convention accepted:
//!              micro-price (pb*qa+pa*qb)/(qa+qb) or (pb*qb+pa*qa)/(qa+qb); it must come from the BEST levels)
//!  R-snapshot  "depth-limited snapshots are those of that map": snapshot(d) == first d levels per side, same
//!              sequence, for d in 0..=5, around the length of the longer side (half, -1, exact, +1) and
//!              usize::MAX; a panic of snapshot(d) is a violation
//!  R-mid / R-vwmp compare VALUES: within (|bb|+|ba|)*1e-24 of the reference (a `Decimal` has 28 digits; an
//!  algebraically equal form of a non-terminating division differs in the last digit) - soundness round.
//! `time_engine` is varied in the inputs but never judged (the statement does not mention it); the manager layers
//! (2, 5) compare books with `same_book` (levels + sequence), not with `OrderBook::eq` - soundness round.

use super::c17::{Big, Rat};
use crate::core::{Ctx, Distinct, Outcome, Samples, hash_of};
use crate::explore::{
    bfs::{self, BfsStats, Model, Viol},
    env,
    seq::{self, SeqModel},
};
use barter_data::{
    books::{
        Level, OrderBook,
        manager::OrderBookL2Manager,
        map::{OrderBookMapMulti, OrderBookMapSingle},
    },
    event::MarketEvent,
    streams::{consumer::MarketStreamEvent, reconnect::Event},
    subscription::book::OrderBookEvent,
};
use barter_instrument::{exchange::ExchangeId, instrument::InstrumentIndex};
use chrono::{DateTime, TimeZone, Utc};
use fnv::FnvHashMap;
use parking_lot::RwLock;
use rayon::prelude::*;
use rust_decimal::Decimal;
use serde::{Deserialize, Serialize};
use serde_json::{Value, json};
use std::{
    collections::{BTreeMap, HashMap, HashSet},
    hash::{Hash, Hasher},
    str::FromStr,
    sync::Arc,
    task::Poll,
};

// ------------------------------------------------------------------------------------------------
// Alphabet
// ------------------------------------------------------------------------------------------------

const MAXL: usize = 4;

/// One event. Levels are (price index, amount index) into the model's tables, in LIST ORDER
/// (`nb`/`na` = number of used entries of `b`/`a`).
#[derive(Clone, Copy, Debug, PartialEq, Eq, Hash, Serialize, Deserialize)]
pub struct Act {
    pub snap: bool,
    pub seq: u8,
    pub nb: u8,
    pub b: [(u8, u8); MAXL],
    pub na: u8,
    pub a: [(u8, u8); MAXL],
}

impl Act {
    fn new(snap: bool, seq: u8, b: &[(u8, u8)], a: &[(u8, u8)]) -> Self {
        let mut x = Act { snap, seq, nb: b.len() as u8, b: [(0, 0); MAXL], na: a.len() as u8, a: [(0, 0); MAXL] };
        x.b[..b.len()].copy_from_slice(b);
        x.a[..a.len()].copy_from_slice(a);
        x
    }
    fn bids(&self) -> &[(u8, u8)] {
        &self.b[..self.nb as usize]
    }
    fn asks(&self) -> &[(u8, u8)] {
        &self.a[..self.na as usize]
    }
}

/// The BFS state is the real object; `Hash` over exactly the fields `Eq` compares.
#[derive(Clone, PartialEq, Eq, Debug)]
pub struct St(pub OrderBook);

impl Hash for St {
    fn hash<H: Hasher>(&self, h: &mut H) {
        self.0.sequence.hash(h);
        self.0.time_engine.hash(h);
        self.0.bids().levels().hash(h);
        0xffu8.hash(h);
        self.0.asks().levels().hash(h);
    }
}

pub struct M {
    bid_px: Vec<Decimal>,
    ask_px: Vec<Decimal>,
    amts: Vec<Decimal>, // index 0 (and any other entry that is_zero) deletes
    acts: Vec<Act>,
}

fn d(s: &str) -> Decimal {
    Decimal::from_str(s).unwrap()
}

/// Sequence number carried by an event with sequence symbol `s`: the symbol itself, except that 255
/// stands for `u64::MAX` (a value class beyond 32 bits). Symbol 0 is the number 0, which is also the
/// sequence of `OrderBook::default()` - "the sequence of the last applied event" all the same.
fn seq_of(s: u8) -> u64 {
    if s == 255 { u64::MAX } else { s as u64 }
}

fn time_of(seq: u8) -> Option<DateTime<Utc>> {
    // varied, never judged
    if seq % 2 == 1 { None } else { Some(Utc.timestamp_opt(1_700_000_000 + seq as i64, 0).unwrap()) }
}

/// all lists of length `len` over `syms`
fn lists(syms: &[(u8, u8)], len: usize) -> Vec<Vec<(u8, u8)>> {
    let mut out: Vec<Vec<(u8, u8)>> = vec![vec![]];
    for _ in 0..len {
        out = out
            .into_iter()
            .flat_map(|l| syms.iter().map(move |s| { let mut l2 = l.clone(); l2.push(*s); l2 }))
            .collect();
    }
    out
}

/// Snapshot side menus: every subset of the price indices with a non-zero amount pattern, listed in a
/// scrambled (neither ascending nor descending where possible) order.
fn snapshot_sides(n_px: usize, nonzero_amts: &[u8], distinct_value: &dyn Fn(u8) -> usize) -> Vec<Vec<(u8, u8)>> {
    let mut out = Vec::new();
    for mask in 0u32..(1 << n_px) {
        let idx: Vec<u8> = (0..n_px as u8).filter(|i| mask & (1 << i) != 0).collect();
        // well-formed: no two entries with numerically equal price
        let mut vals = HashSet::new();
        if !idx.iter().all(|i| vals.insert(distinct_value(*i))) {
            continue;
        }
        for pat in 0..nonzero_amts.len().min(2) {
            let mut l: Vec<(u8, u8)> = idx
                .iter()
                .enumerate()
                .map(|(k, p)| (*p, nonzero_amts[(k + pat) % nonzero_amts.len()]))
                .collect();
            // scramble: rotate by one and swap the ends -> for 3 levels [b,c,a] etc.
            if l.len() > 1 {
                l.rotate_left(1);
            }
            if l.len() > 2 && pat == 1 {
                l.reverse();
            }
            if !out.contains(&l) {
                out.push(l);
            }
        }
    }
    out
}

impl M {
    /// `one_side_max`: max list length when the other side is empty; `total_max`: max total number of
    /// levels when both sides are used.
    fn new(bid_px: &[&str], ask_px: &[&str], amts: &[&str], seqs: &[u8], total_max: usize, one_side_max: usize) -> Self {
        let bid_px: Vec<Decimal> = bid_px.iter().map(|s| d(s)).collect();
        let ask_px: Vec<Decimal> = ask_px.iter().map(|s| d(s)).collect();
        let amts: Vec<Decimal> = amts.iter().map(|s| d(s)).collect();
        let syms = |n: usize| -> Vec<(u8, u8)> {
            (0..n as u8).flat_map(|p| (0..amts.len() as u8).map(move |q| (p, q))).collect()
        };
        let (bs, as_) = (syms(bid_px.len()), syms(ask_px.len()));
        let mut acts = Vec::new();
        // updates
        for nb in 0..=one_side_max.min(MAXL) {
            for na in 0..=one_side_max.min(MAXL) {
                let both = nb > 0 && na > 0;
                if both && nb + na > total_max {
                    continue;
                }
                for b in lists(&bs, nb) {
                    for a in lists(&as_, na) {
                        for s in seqs {
                            acts.push(Act::new(false, *s, &b, &a));
                        }
                    }
                }
            }
        }
        // snapshots: (all bid menus x 4 ask menus) + (4 bid menus x all ask menus)
        let nonzero: Vec<u8> = (0..amts.len() as u8).filter(|q| !amts[*q as usize].is_zero()).collect();
        let bv = |i: u8| -> usize { bid_px.iter().position(|p| *p == bid_px[i as usize]).unwrap() };
        let av = |i: u8| -> usize { ask_px.iter().position(|p| *p == ask_px[i as usize]).unwrap() };
        let sb = snapshot_sides(bid_px.len(), &nonzero, &bv);
        let sa = snapshot_sides(ask_px.len(), &nonzero, &av);
        let few = |v: &Vec<Vec<(u8, u8)>>| -> Vec<Vec<(u8, u8)>> {
            let mut f = vec![v[0].clone(), v[1].clone(), v[v.len() - 1].clone(), v[v.len() - 2].clone()];
            f.dedup();
            f
        };
        let (fb, fa) = (few(&sb), few(&sa));
        let mut snaps: Vec<(Vec<(u8, u8)>, Vec<(u8, u8)>)> = Vec::new();
        for b in &sb {
            for a in &fa {
                snaps.push((b.clone(), a.clone()));
            }
        }
        for b in &fb {
            for a in &sa {
                if !snaps.contains(&(b.clone(), a.clone())) {
                    snaps.push((b.clone(), a.clone()));
                }
            }
        }
        for (b, a) in snaps {
            for s in seqs {
                acts.push(Act::new(true, *s, &b, &a));
            }
        }
        Self { bid_px, ask_px, amts, acts }
    }

    fn by_label(label: &str) -> Self {
        match label {
            // 3 prices per side; lists: total <= 2 over both sides, or <= 3 on one side alone
            "p3" => M::new(&["1", "2", "3"], &["4", "5", "6"], &["0", "5", "7"], &[1, 2, 3], 2, 3),
            // 4 prices per side (more binary-search paths)
            "p4" => M::new(&["1", "2", "3", "4"], &["5", "6", "7", "8"], &["0", "5", "7"], &[1, 2, 3], 2, 3),
            // decimal scales: 1 / 1.0 / 1.00 are one level; 0 / 0.00 both delete; books may cross (2 on both sides)
            "scales" => M::new(&["1", "1.0", "1.00", "2"], &["2.0", "3", "3.00"], &["0", "0.00", "5", "5.0", "7"], &[1, 2], 2, 2),
            // overlapping price ranges: a bid above / equal to / below resting asks and vice versa (a map per
            // side knows nothing of the other side: a crossed book keeps every level); sequence numbers 0
            // (also the default book's), 2 and u64::MAX
            "cross" => M::new(&["1", "3", "4"], &["2", "3", "5"], &["0", "5", "7"], &[0, 2, 255], 2, 2),
            // prices that differ only in the 12th decimal place next to a 10^7 price, an amount of 10^-28, the
            // smallest non-zero `Decimal` (not zero: it sets the level; 10^-12 until the second hardening
            // round); on each side one pair of prices that differ only BEYOND the ~16
            // significant digits of a binary double (0.1 / 0.1000000000000000001 and 12345678.9 /
            // 12345678.900000000001): a `Decimal` price is a key with all its 28 digits
            "fine" => M::new(
                &["0.1", "0.1000000000000000001", "0.100000000001"],
                &["0.100000000003", "12345678.9", "12345678.900000000001"],
                &["0", "0.0000000000000000000000000001", "7"],
                &[1, 2],
                2,
                2,
            ),
            other => panic!("C05: unknown model label {other}"),
        }
    }

    fn levels(&self, px: &[Decimal], l: &[(u8, u8)]) -> Vec<Level> {
        l.iter().map(|(p, q)| Level::new(px[*p as usize], self.amts[*q as usize])).collect()
    }

    /// The event exactly as a connector builds it: `OrderBook::new(seq, time, unsorted bids, unsorted asks)`.
    fn event(&self, a: &Act) -> OrderBookEvent {
        let book = OrderBook::new(
            seq_of(a.seq),
            time_of(a.seq),
            self.levels(&self.bid_px, a.bids()),
            self.levels(&self.ask_px, a.asks()),
        );
        if a.snap { OrderBookEvent::Snapshot(book) } else { OrderBookEvent::Update(book) }
    }

    fn describe(&self, a: &Act) -> String {
        let f = |px: &[Decimal], l: &[(u8, u8)]| {
            l.iter().map(|(p, q)| format!("{}@{}", self.amts[*q as usize], px[*p as usize])).collect::<Vec<_>>().join(",")
        };
        format!(
            "{}(seq={}, bids=[{}], asks=[{}])",
            if a.snap { "Snapshot" } else { "Update" },
            seq_of(a.seq),
            f(&self.bid_px, a.bids()),
            f(&self.ask_px, a.asks())
        )
    }
}

// ------------------------------------------------------------------------------------------------
// Reference (the statement) and oracle
// ------------------------------------------------------------------------------------------------

type PMap = BTreeMap<Decimal, Decimal>;

fn to_map(levels: &[Level]) -> PMap {
    levels.iter().map(|l| (l.price, l.amount)).collect()
}

/// "an update with amount zero deletes the level, any other amount sets it, deleting an absent level is
/// a no-op" — applied to the raw list in list order.
fn apply_update(map: &mut PMap, levels: &[Level]) {
    for l in levels {
        if l.amount.is_zero() {
            map.remove(&l.price);
        } else {
            map.insert(l.price, l.amount);
        }
    }
}

fn has_dup_price(levels: &[Level]) -> bool {
    let mut s = HashSet::new();
    !levels.iter().all(|l| s.insert(l.price))
}

/// Compare one side of the real book with the map (already in the required order).
fn side_cause(got: &[Level], want: &[(Decimal, Decimal)], descending: bool) -> Option<&'static str> {
    if got.len() == want.len() && got.iter().zip(want).all(|(l, w)| (l.price, l.amount) == *w) {
        return None; // (the common case, without allocating)
    }
    let g: Vec<(Decimal, Decimal)> = got.iter().map(|l| (l.price, l.amount)).collect();
    let mut seen = HashSet::new();
    if !g.iter().all(|(p, _)| seen.insert(*p)) {
        return Some("price-appears-twice");
    }
    let sorted = g.windows(2).all(|w| if descending { w[0].0 > w[1].0 } else { w[0].0 < w[1].0 });
    if !sorted {
        return Some("not-strictly-ordered");
    }
    if g.iter().any(|(_, q)| q.is_zero()) {
        return Some("zero-amount-level-kept");
    }
    let wm: PMap = want.iter().cloned().collect();
    let gm: PMap = g.iter().cloned().collect();
    if gm.keys().any(|p| !wm.contains_key(p)) {
        return Some("level-not-in-map");
    }
    if wm.keys().any(|p| !gm.contains_key(p)) {
        return Some("level-missing");
    }
    Some("wrong-amount")
}

/// What the statement says about a book as a whole: its levels (both sides, in order) and its sequence.
/// NOT `OrderBook::eq`, which also compares `time_engine` - a field the statement never mentions (a manager may
/// stamp it, keep the last known one, ...).
fn same_book(a: &OrderBook, b: &OrderBook) -> bool {
    a.sequence == b.sequence && a.bids().levels() == b.bids().levels() && a.asks().levels() == b.asks().levels()
}

/// All observers of the statement on `book`, against the maps `wb`/`wa` and the expected sequence.
fn check_book(kind: &str, _tag: &str, book: &OrderBook, wb: &PMap, wa: &PMap, want_seq: u64, ctx_txt: &dyn Fn() -> String, out: &mut Vec<Viol>) {
    let want_bids: Vec<(Decimal, Decimal)> = wb.iter().rev().map(|(p, q)| (*p, *q)).collect();
    let want_asks: Vec<(Decimal, Decimal)> = wa.iter().map(|(p, q)| (*p, *q)).collect();
    // R-levels
    if let Some(c) = side_cause(book.bids().levels(), &want_bids, true) {
        out.push((
            format!("C05/levels/bids/{kind}/{c}"),
            format!("{} -> bids={:?}, map says {:?}", ctx_txt(), book.bids().levels(), want_bids),
        ));
    }
    if let Some(c) = side_cause(book.asks().levels(), &want_asks, false) {
        out.push((
            format!("C05/levels/asks/{kind}/{c}"),
            format!("{} -> asks={:?}, map says {:?}", ctx_txt(), book.asks().levels(), want_asks),
        ));
    }
    let levels_ok = out.is_empty();
    // R-sequence
    if book.sequence != want_seq {
        out.push((
            format!("C05/sequence/{kind}/not-that-of-last-event"),
            format!("{} -> sequence={}, last applied event has {}", ctx_txt(), book.sequence, want_seq),
        ));
    }
    if !levels_ok {
        return; // the derived observers would only repeat the level defect under other names
    }
    // R-mid / R-vwmp from the MAP's best levels
    let (bb, ba) = (want_bids.first().copied(), want_asks.first().copied());
    let shape = match (bb, ba) {
        (Some(_), Some(_)) => "two-sided",
        (Some(_), None) | (None, Some(_)) => "one-sided",
        (None, None) => "empty",
    };
    let (mid_ok, vw_ok): (Vec<Option<Decimal>>, Vec<Option<Decimal>>) = match (bb, ba) {
        (Some(b), Some(a)) => (
            vec![Some((b.0 + a.0) / Decimal::TWO)],
            vec![
                Some((b.0 * a.1 + a.0 * b.1) / (b.1 + a.1)),
                Some((b.0 * b.1 + a.0 * a.1) / (b.1 + a.1)),
            ],
        ),
        (Some(x), None) | (None, Some(x)) => (vec![None, Some(x.0)], vec![None, Some(x.0)]),
        (None, None) => (vec![None], vec![None]),
    };
    // The statement fixes the VALUE (the mean / the amount-weighted mean of the map's two best prices), not a
    // formula: a `Decimal` holds 28 significant digits, and where the division does not terminate an algebraically
    // equal form (I*ask + (1-I)*bid with I = qb/(qa+qb), bid + spread/2, ...) differs in the last digit or two.
    // Accepted: within (|best bid| + |best ask|) * 1e-24 of the reference value (>= 3 decimal orders above any such
    // rounding, >= 20 orders below the effect of a wrong level / weight / price in any alphabet).
    let tol = (bb.map_or(Decimal::ZERO, |x| x.0.abs()) + ba.map_or(Decimal::ZERO, |x| x.0.abs())) * Decimal::new(1, 24);
    let allowed = |got: Option<Decimal>, ok: &[Option<Decimal>]| -> bool {
        ok.iter().any(|w| match (got, w) {
            (None, None) => true,
            (Some(g), Some(w)) => g == *w || g.checked_sub(*w).is_some_and(|d| d.abs() <= tol),
            _ => false,
        })
    };
    // The reference values above are themselves computed in `Decimal` (the products of the micro-price underflow
    // when both best amounts are ~1e-28 and the formula then yields 0). A result that is within `tol` of the
    // EXACT rational value is "that of the map" as well (only evaluated when the comparison above fails).
    let exact_allowed = |got: Option<Decimal>, vw: bool| -> bool {
        let (Some(g), Some(b), Some(a)) = (got, bb, ba) else { return false };
        let int = |x: Decimal| Big::from_i128(x.mantissa()).mul(&Big::pow10(28 - x.scale())); // x * 1e28
        let (pb, qb, pa, qa) = (int(b.0), int(b.1), int(a.0), int(a.1));
        let e28 = Big::pow10(28);
        let wants: Vec<Rat> = if !vw {
            vec![Rat::new(pb.add(&pa), Big::from_i128(2).mul(&e28))]
        } else {
            let den = qa.add(&qb);
            if den.is_zero() || den.is_neg() {
                return false;
            }
            vec![
                Rat::new(pb.mul(&qa).add(&pa.mul(&qb)), den.mul(&e28)),
                Rat::new(pb.mul(&qb).add(&pa.mul(&qa)), den.mul(&e28)),
            ]
        };
        let (g, t) = (Rat::from_decimal(g), Rat::from_decimal(tol));
        wants.iter().any(|w| g.close(w, &t).0)
    };
    let mid = book.mid_price();
    if !allowed(mid, &mid_ok) && !exact_allowed(mid, false) {
        out.push((
            format!("C05/mid-price/{shape}"),
            format!("{} -> mid_price={mid:?}, map allows {mid_ok:?} (best bid {bb:?}, best ask {ba:?})", ctx_txt()),
        ));
    }
    let vw = book.volume_weighed_mid_price();
    if !allowed(vw, &vw_ok) && !exact_allowed(vw, true) {
        out.push((
            format!("C05/volume-weighted-mid-price/{shape}"),
            format!("{} -> volume_weighed_mid_price={vw:?}, map allows {vw_ok:?} (best bid {bb:?}, best ask {ba:?})", ctx_txt()),
        ));
    }
    // R-snapshot: depths 0..=5, the length of the longer side, one more, and usize::MAX ("everything")
    let longest = want_bids.len().max(want_asks.len());
    let mut depths: Vec<usize> = (0..=5usize).collect();
    for extra in [longest / 2, longest.saturating_sub(1), longest, longest + 1, usize::MAX] {
        if !depths.contains(&extra) {
            depths.push(extra);
        }
    }
    for depth in depths {
        let Ok(s) = std::panic::catch_unwind(std::panic::AssertUnwindSafe(|| book.snapshot(depth))) else {
            let c = if depth == usize::MAX { "depth-usize-max" } else if depth > longest { "depth-beyond-book" } else { "depth-within-book" };
            out.push((format!("C05/snapshot-depth/panic/{c}"), format!("{} -> snapshot({depth}) panicked", ctx_txt())));
            continue;
        };
        for (side, got, want) in [
            ("bids", s.bids().levels(), &want_bids),
            ("asks", s.asks().levels(), &want_asks),
        ] {
            if got.len() == want.len().min(depth) && got.iter().zip(want.iter()).all(|(l, w)| (l.price, l.amount) == *w) {
                continue; // (the common case, without allocating)
            }
            let w: Vec<(Decimal, Decimal)> = want.iter().take(depth).cloned().collect();
            let g: Vec<(Decimal, Decimal)> = got.iter().map(|l| (l.price, l.amount)).collect();
            if g != w {
                let c = if g.len() > w.len() { "too-many-levels" } else if g.len() < w.len() { "too-few-levels" } else { "wrong-levels" };
                out.push((
                    format!("C05/snapshot-depth/{side}/{c}"),
                    format!("{} -> snapshot({depth}).{side}={g:?}, first {depth} of the map are {w:?}", ctx_txt()),
                ));
            }
        }
        if s.sequence != book.sequence {
            out.push((
                "C05/snapshot-depth/sequence-differs-from-book".to_string(),
                format!("{} -> snapshot({depth}).sequence={} book.sequence={}", ctx_txt(), s.sequence, book.sequence),
            ));
        }
    }
}

impl Model for M {
    type State = St;
    type Action = Act;

    fn init(&self) -> Vec<St> {
        vec![St(OrderBook::default())]
    }

    fn actions(&self, _s: &St) -> Vec<Act> {
        self.acts.clone()
    }

    fn step(&self, s: &St, a: &Act, out: &mut Vec<Viol>) -> Option<St> {
        // reference: maps of the pre-state (re-synchronised with the implementation), then the event
        let mut wb = to_map(s.0.bids().levels());
        let mut wa = to_map(s.0.asks().levels());
        let raw_b = self.levels(&self.bid_px, a.bids());
        let raw_a = self.levels(&self.ask_px, a.asks());
        if a.snap {
            wb = to_map(&raw_b);
            wa = to_map(&raw_a);
        } else {
            apply_update(&mut wb, &raw_b);
            apply_update(&mut wa, &raw_a);
        }
        // implementation (a panic of the book on an in-alphabet event means it does not hold the map)
        let kind = if a.snap { "snapshot" } else { "update" };
        let applied = std::panic::catch_unwind(std::panic::AssertUnwindSafe(|| {
            let mut book = s.0.clone();
            book.update(self.event(a));
            book
        }));
        let Ok(book) = applied else {
            out.push((format!("C05/panic/{kind}"), format!("OrderBook::update panicked: book {:?} + {}", s.0, self.describe(a))));
            return None; // the pre-state stays explored through the other actions
        };
        let tag = "";
        let txt = || format!("book(seq={}, bids={:?}, asks={:?}) + {}", s.0.sequence, s.0.bids().levels(), s.0.asks().levels(), self.describe(a));
        let mut v = Vec::new();
        if std::panic::catch_unwind(std::panic::AssertUnwindSafe(|| check_book(kind, tag, &book, &wb, &wa, seq_of(a.seq), &txt, &mut v))).is_err() {
            v.push((format!("C05/panic/observer-after-{kind}"), format!("an observer panicked: {}", txt())));
        }
        if v.is_empty() {
            Some(St(book))
        } else {
            // continue from the reference state (what the map holds): keeps the explored space finite under
            // any defect and lets a second, different defect still be found
            out.extend(v);
            Some(St(OrderBook::new(
                seq_of(a.seq),
                time_of(a.seq),
                wb.iter().map(|(p, q)| Level::new(*p, *q)).collect::<Vec<_>>(),
                wa.iter().map(|(p, q)| Level::new(*p, *q)).collect::<Vec<_>>(),
            )))
        }
    }

    fn impl_hash(&self, s: &St) -> Option<u64> {
        Some(hash_of(s))
    }
}

// ------------------------------------------------------------------------------------------------
// Memory-lean BFS (same semantics and case format as explore::bfs::run, which materialises every
// (action, successor) pair of a level — too much for 10^8 transitions). Level-synchronous, the
// frontier is expanded in fixed-size chunks in frontier order; each worker only returns successors
// not yet in the index, and per-signature first violation + count. Deterministic.
// ------------------------------------------------------------------------------------------------

struct Expanded<A, S> {
    transitions: u64,
    viol_steps: u64,
    viols: BTreeMap<String, (u64, A, String)>,
    fresh: Vec<(A, S)>,
}

fn bfs_stream<Mo: Model>(ctx: &Ctx, model: &Mo, label: &str, max_states: usize) -> BfsStats {
    let mut stats = BfsStats::default();
    let mut index: HashMap<Mo::State, u32> = HashMap::new();
    let mut nodes: Vec<(u32, Option<Mo::Action>)> = Vec::new();
    let mut impl_hashes = HashSet::new();
    let mut frontier: Vec<(u32, Mo::State)> = Vec::new();
    let mut seen_sigs: HashSet<String> = HashSet::new();
    for s in model.init() {
        if !index.contains_key(&s) {
            let id = nodes.len() as u32;
            index.insert(s.clone(), id);
            nodes.push((0, None));
            impl_hashes.extend(model.impl_hash(&s));
            frontier.push((id, s));
        }
    }
    let path_of = |nodes: &Vec<(u32, Option<Mo::Action>)>, mut id: u32| -> Vec<Mo::Action> {
        let mut rev = Vec::new();
        while let (p, Some(a)) = &nodes[id as usize] {
            rev.push(a.clone());
            id = *p;
        }
        rev.reverse();
        rev
    };
    stats.frontier_sizes.push(frontier.len());
    let mut depth = 0usize;
    while !frontier.is_empty() && !stats.capped {
        let mut next_frontier = Vec::new();
        for chunk in frontier.chunks(64) {
            let idx = &index;
            let expanded: Vec<Expanded<Mo::Action, Mo::State>> = chunk
                .par_iter()
                .map(|(_, s)| {
                    let mut e = Expanded { transitions: 0, viol_steps: 0, viols: BTreeMap::new(), fresh: Vec::new() };
                    let mut local: HashSet<Mo::State> = HashSet::new();
                    for a in model.actions(s) {
                        let mut out = Vec::new();
                        let next = model.step(s, &a, &mut out);
                        e.transitions += 1;
                        if !out.is_empty() {
                            e.viol_steps += 1;
                            for (sig, detail) in out {
                                e.viols.entry(sig).or_insert_with(|| (0, a.clone(), detail)).0 += 1;
                            }
                        }
                        if let Some(ns) = next {
                            if !idx.contains_key(&ns) && local.insert(ns.clone()) {
                                e.fresh.push((a, ns));
                            }
                        }
                    }
                    e
                })
                .collect();
            for ((pid, _), e) in chunk.iter().zip(expanded) {
                stats.transitions += e.transitions;
                stats.oracle_violation_steps += e.viol_steps;
                for (sig, (n, a, detail)) in e.viols {
                    let mut n = n;
                    if seen_sigs.insert(sig.clone()) {
                        let mut path = path_of(&nodes, *pid);
                        path.push(a);
                        ctx.violate(sig.clone(), detail, json!({"engine": "bfs", "label": label, "init": 0, "path": path}));
                        n -= 1;
                    }
                    for _ in 0..n {
                        ctx.violations.bump(&sig);
                    }
                }
                for (a, ns) in e.fresh {
                    if index.contains_key(&ns) {
                        continue;
                    }
                    if nodes.len() >= max_states {
                        stats.capped = true;
                        continue;
                    }
                    let id = nodes.len() as u32;
                    index.insert(ns.clone(), id);
                    nodes.push((*pid, Some(a)));
                    impl_hashes.extend(model.impl_hash(&ns));
                    next_frontier.push((id, ns));
                }
            }
        }
        depth += 1;
        stats.depth_completed = depth;
        if !next_frontier.is_empty() {
            stats.max_depth = depth;
            stats.frontier_sizes.push(next_frontier.len());
        }
        frontier = next_frontier;
    }
    stats.fixpoint = frontier.is_empty() && !stats.capped;
    stats.states = nodes.len();
    stats.distinct_impl_states = impl_hashes.len();
    for id in [nodes.len() - 1, nodes.len() / 2] {
        stats.samples.push(json!({"label": label, "init": 0, "path": path_of(&nodes, id as u32)}));
    }
    stats
}

// ------------------------------------------------------------------------------------------------
// Layer 2: OrderBookL2Manager::run with two instruments (E-SEQ over delivery sequences, the manager
// future rebuilt and the history re-delivered for every step because the manager is not Clone).
// ------------------------------------------------------------------------------------------------

#[derive(Clone, Copy, Debug, PartialEq, Eq, Serialize, Deserialize)]
pub enum MSym {
    /// event `ev` of the manager menu for instrument key `inst` (0, 1 configured; 2 not configured)
    Item { inst: u8, ev: u8 },
    Reconnecting,
}

pub struct MgrModel {
    m: M,
    menu: Vec<Act>,
    /// false: `OrderBookMapMulti` with instruments 0 and 1 configured; true: `OrderBookMapSingle` with
    /// instrument 0 only (keys 1 and 2 are then both un-configured)
    single: bool,
}

type Delivery = MarketStreamEvent<InstrumentIndex, OrderBookEvent>;

impl MgrModel {
    fn new() -> Self {
        Self::with_map(false)
    }

    fn with_map(single: bool) -> Self {
        let m = M::by_label("p3");
        let menu = vec![
            Act::new(true, 1, &[(0, 1), (2, 2)], &[(1, 1)]),          // snapshot, unsorted bids
            Act::new(true, 2, &[], &[]),                               // empty snapshot
            Act::new(false, 2, &[(1, 0), (2, 1)], &[]),                // delete absent/present + set
            Act::new(false, 3, &[(0, 2)], &[(0, 0), (1, 2)]),          // both sides
            Act::new(false, 1, &[(2, 0)], &[(2, 1), (2, 2)]),          // sequence goes down, price twice
        ];
        Self { m, menu, single }
    }

    /// number of configured instruments (keys 0..configured)
    fn configured(&self) -> usize {
        if self.single { 1 } else { 2 }
    }

    fn tag(&self) -> &'static str {
        if self.single { "manager-single" } else { "manager" }
    }

    fn delivery(&self, s: &MSym) -> Delivery {
        match s {
            MSym::Reconnecting => Event::Reconnecting(ExchangeId::BinanceSpot),
            // the envelope's timestamps go up AND down along a delivery sequence (venue clocks are not monotone
            // across partitions; the statement is about the sequence of events, whatever their stamps), and the
            // receive time runs against the exchange time
            MSym::Item { inst, ev } => Event::Item(MarketEvent {
                time_exchange: Utc.timestamp_opt(1_700_000_000 + [30, 10, 50, 20, 40][*ev as usize % 5] + *inst as i64, 0).unwrap(),
                time_received: Utc.timestamp_opt(1_700_000_100 - [30, 10, 50, 20, 40][*ev as usize % 5], 0).unwrap(),
                exchange: [ExchangeId::BinanceSpot, ExchangeId::Kraken, ExchangeId::Okx][*inst as usize % 3], // one venue per instrument
                instrument: InstrumentIndex(*inst as usize),
                kind: self.m.event(&self.menu[*ev as usize]),
            }),
        }
    }

    /// A fresh real manager over a harness-owned channel: (books the harness keeps a handle on, sender,
    /// the `run` future). With the single map only book 0 is handed to the manager.
    #[allow(clippy::type_complexity)]
    fn manager(&self) -> (Vec<Arc<RwLock<OrderBook>>>, futures::channel::mpsc::UnboundedSender<Delivery>, std::pin::Pin<Box<dyn std::future::Future<Output = ()>>>) {
        let books: Vec<Arc<RwLock<OrderBook>>> = (0..2).map(|_| Arc::new(RwLock::new(OrderBook::default()))).collect();
        let (tx, fut) = self.manager_on(&books);
        (books, tx, fut)
    }

    #[allow(clippy::type_complexity)]
    fn manager_on(&self, books: &[Arc<RwLock<OrderBook>>]) -> (futures::channel::mpsc::UnboundedSender<Delivery>, std::pin::Pin<Box<dyn std::future::Future<Output = ()>>>) {
        let (tx, rx) = futures::channel::mpsc::unbounded::<Delivery>();
        let fut: std::pin::Pin<Box<dyn std::future::Future<Output = ()>>> = if self.single {
            let manager = OrderBookL2Manager { stream: rx, books: OrderBookMapSingle::new(InstrumentIndex(0), books[0].clone()) };
            Box::pin(manager.run())
        } else {
            let mut map = FnvHashMap::default();
            map.insert(InstrumentIndex(0), books[0].clone());
            map.insert(InstrumentIndex(1), books[1].clone());
            let manager = OrderBookL2Manager { stream: rx, books: OrderBookMapMulti::new(map) };
            Box::pin(manager.run())
        };
        (tx, fut)
    }

    /// Layer 5: a READER (the purpose of the shared map: "clone the map for viewing the up to date books
    /// elsewhere") holds book 0 while the manager is handed menu event `ev` for instrument 0. Whatever the
    /// manager does meanwhile (wait for the reader, as `RwLock::write` does), once the reader is gone the book
    /// must be the event applied to the previous book: an event of the sequence is never lost.
    /// Deterministic barrier, no clock: the reader releases the book when the manager's writer is seen waiting
    /// (`try_read` fails once a writer has announced itself) or when the manager's poll has returned.
    /// Returns (book afterwards, how the barrier ended: "writer-waited" | "poll-returned-while-held" | "gave-up").
    fn drive_contended(&self, ev: u8) -> (OrderBook, &'static str) {
        use std::sync::atomic::{AtomicBool, Ordering::SeqCst};
        let books: Vec<Arc<RwLock<OrderBook>>> = (0..2).map(|_| Arc::new(RwLock::new(OrderBook::default()))).collect();
        let (done, released) = (AtomicBool::new(false), AtomicBool::new(false));
        let guard = books[0].read();
        let mut barrier = "gave-up";
        std::thread::scope(|sc| {
            let worker = sc.spawn(|| {
                let (tx, mut fut) = self.manager_on(&books);
                let (flag, waker) = env::flag_waker();
                let _ = tx.unbounded_send(self.delivery(&MSym::Item { inst: 0, ev }));
                // poll until quiescent; a manager that keeps re-waking itself while the book is held (retrying)
                // is polled again and again until the reader has left - it is not a livelock of the subject
                let mut poll_to_quiescence = || {
                    let mut cx = std::task::Context::from_waker(&waker);
                    loop {
                        flag.0.store(false, SeqCst);
                        if fut.as_mut().poll(&mut cx).is_ready() || !flag.0.load(SeqCst) {
                            break;
                        }
                        std::thread::yield_now();
                    }
                };
                poll_to_quiescence();
                done.store(true, SeqCst);
                while !released.load(SeqCst) {
                    std::thread::yield_now();
                }
                poll_to_quiescence(); // a second chance for a deferring manager
            });
            let mut spins = 0u64;
            loop {
                if done.load(SeqCst) {
                    barrier = "poll-returned-while-held";
                    break;
                }
                if books[0].try_read().is_none() {
                    barrier = "writer-waited";
                    break;
                }
                if spins > 2_000_000 {
                    break; // gave up (e.g. a manager that retries without blocking): only the final book is judged
                }
                spins += 1;
                std::thread::yield_now();
            }
            drop(guard);
            released.store(true, SeqCst);
            let _ = worker.join();
        });
        let after = books[0].read().clone();
        (after, barrier)
    }

    fn contention_check(&self, ev: u8, out: &mut Vec<Viol>) -> (u64, &'static str) {
        let tag = self.tag();
        let mut want = OrderBook::default();
        want.update(self.m.event(&self.menu[ev as usize]));
        let (after, barrier) = self.drive_contended(ev);
        if !same_book(&after, &want) {
            out.push((
                format!("C05/{tag}/reader-holds-book/event-not-applied"),
                format!(
                    "{} delivered for instrument 0 while a reader held its book (barrier: {barrier}): book afterwards {:?}, the event applied gives {:?}",
                    self.m.describe(&self.menu[ev as usize]), after, want
                ),
            ));
        }
        (hash_of(&St(after)), barrier)
    }

    /// Burst delivery: ALL of `syms` are queued before the manager is polled at all (what happens whenever
    /// the consumer task is scheduled later than the producers). Returns the books once `run` is quiescent.
    fn drive_burst(&self, syms: &[MSym]) -> [OrderBook; 2] {
        let (books, tx, mut fut) = self.manager();
        let (flag, waker) = env::flag_waker();
        for s in syms {
            let _ = tx.unbounded_send(self.delivery(s));
        }
        let _ = env::poll_quiesce(fut.as_mut(), &flag, &waker);
        [books[0].read().clone(), books[1].read().clone()]
    }

    /// Deliver `syms` one by one to a fresh real manager; returns the two configured books after the
    /// last delivery and whether `run` was still pending (it must only end when the stream ends).
    fn drive(&self, syms: &[MSym]) -> ([OrderBook; 2], bool, bool) {
        let (books, tx, mut fut) = self.manager();
        let (flag, waker) = env::flag_waker();
        let mut pending = true;
        for s in syms {
            let ev = self.delivery(s);
            if !pending {
                return (Default::default(), false, false); // `run` had returned before this delivery (judged on the step where it did)
            }
            let _ = tx.unbounded_send(ev);
            pending &= env::poll_quiesce(fut.as_mut(), &flag, &waker).is_pending();
        }
        let snapshot = [books[0].read().clone(), books[1].read().clone()];
        drop(tx);
        let ended = !pending || env::poll_quiesce(fut.as_mut(), &flag, &waker).is_ready();
        (snapshot, pending, ended)
    }
}

impl SeqModel for MgrModel {
    /// Reference: per configured instrument the real `OrderBook` folded directly over ITS events (the book
    /// semantics themselves are judged by layer 1; this layer judges the routing by the manager).
    type State = [OrderBook; 2];
    type Sym = MSym;

    fn init(&self) -> Self::State {
        Default::default()
    }

    fn alphabet(&self, _s: &Self::State, _h: &[MSym]) -> Vec<MSym> {
        let mut v = vec![MSym::Reconnecting];
        for inst in 0..3u8 {
            for ev in 0..self.menu.len() as u8 {
                v.push(MSym::Item { inst, ev });
            }
        }
        v
    }

    fn step(&self, s: &mut Self::State, sym: &MSym, hist: &[MSym], out: &mut Vec<Viol>) {
        let tag = self.tag();
        if let MSym::Item { inst, ev } = sym {
            if (*inst as usize) < self.configured() {
                s[*inst as usize].update(self.m.event(&self.menu[*ev as usize]));
            }
        }
        let mut all: Vec<MSym> = hist.to_vec();
        all.push(*sym);
        let Ok((books, pending, _ended)) = std::panic::catch_unwind(std::panic::AssertUnwindSafe(|| self.drive(&all))) else {
            out.push((format!("C05/{tag}/panic"), format!("manager or book panicked on delivery {all:?}")));
            return;
        };
        if !pending && !_ended {
            return; // the run ended on an earlier delivery of this sequence: already reported there
        }
        let what = match sym {
            MSym::Reconnecting => "reconnecting-notice".to_string(),
            MSym::Item { inst, .. } if *inst as usize >= self.configured() => "event-for-unconfigured-instrument".to_string(),
            MSym::Item { .. } => "event-for-configured-instrument".to_string(),
        };
        for i in 0..2usize {
            if !same_book(&books[i], &s[i]) {
                let own = matches!(sym, MSym::Item { inst, .. } if *inst as usize == i);
                out.push((
                    format!("C05/{tag}/{what}/{}", if own { "own-book-not-updated-with-the-event" } else { "other-book-changed" }),
                    format!("delivery {all:?}: book of instrument {i} is {:?}, its own events applied directly give {:?}", books[i], s[i]),
                ));
                s[i] = books[i].clone(); // re-synchronise: report a routing error once, on the step that causes it
            }
        }
        if !pending {
            // termination on stream END is not judged; ending while the stream is open loses every later event
            out.push((format!("C05/{tag}/{what}/run-ended-while-stream-open"), format!("delivery {all:?}")));
        }
        // Burst: the same deliveries all queued before the manager runs. "After any sequence of snapshots
        // and incremental updates" the books are the fold of EVERY event, however the deliveries were
        // batched by the scheduler. Judged only when one-by-one delivery was right (no echo of a defect
        // reported above).
        if out.is_empty() && all.len() >= 2 {
            match std::panic::catch_unwind(std::panic::AssertUnwindSafe(|| self.drive_burst(&all))) {
                Err(_) => out.push((format!("C05/{tag}/burst-delivery/panic"), format!("manager or book panicked on {all:?} queued at once"))),
                Ok(burst) => {
                    for i in 0..2usize {
                        if !same_book(&burst[i], &s[i]) {
                            out.push((
                                format!("C05/{tag}/burst-delivery/book-differs-from-its-events-applied-in-order"),
                                format!("deliveries {all:?} queued before the manager was polled: book of instrument {i} is {:?}, its own events applied one by one give {:?}", burst[i], s[i]),
                            ));
                        }
                    }
                }
            }
        }
    }

    fn final_hash(&self, s: &Self::State) -> u64 {
        hash_of(&(St(s[0].clone()), St(s[1].clone())))
    }
}

// ------------------------------------------------------------------------------------------------
// Layer 3: long updates with one repeated price (sorting of the level list inside OrderBook::new)
// ------------------------------------------------------------------------------------------------

#[derive(Clone, Debug, Serialize, Deserialize)]
pub struct LongCase {
    pub asks: bool,
    pub n: usize,      // number of levels in the update
    pub i: usize,      // positions of the two entries with the repeated price
    pub j: usize,
    pub order: u8,     // 0 ascending fillers, 1 descending, 2 zig-zag
    pub amounts: (u8, u8), // amounts (index into [0,5,7]) of the first / second entry of the repeated price
    pub preloaded: bool, // the repeated price already exists in the book
}

fn long_levels(c: &LongCase) -> Vec<Level> {
    let amts = [d("0"), d("5"), d("7")];
    // distinct filler prices 1000, 1001, ..; the repeated price 1010.5 sorts into the middle of them
    let src: Vec<i64> = (0..(c.n as i64 - 2)).map(|k| 1000 + k).collect();
    let fill: Vec<i64> = match c.order {
        1 => src.iter().rev().copied().collect(),
        2 => {
            let (lo, hi) = src.split_at(src.len() / 2);
            let mut z: Vec<i64> = lo.iter().zip(hi.iter().rev()).flat_map(|(a, b)| [*a, *b]).collect();
            if src.len() % 2 == 1 {
                z.push(hi[0]);
            }
            z
        }
        _ => src.clone(),
    };
    let rep = d("1010.5");
    let mut out: Vec<Level> = Vec::with_capacity(c.n);
    let mut f = fill.into_iter();
    for k in 0..c.n {
        if k == c.i {
            out.push(Level::new(rep, amts[c.amounts.0 as usize]));
        } else if k == c.j {
            out.push(Level::new(rep, amts[c.amounts.1 as usize]));
        } else {
            out.push(Level::new(Decimal::from(f.next().unwrap()), d("3")));
        }
    }
    out
}

fn long_check(c: &LongCase, out: &mut Vec<Viol>) -> u64 {
    let raw = long_levels(c);
    let pre: Vec<Level> = if c.preloaded { vec![Level::new(d("1010.5"), d("9"))] } else { vec![] };
    let mut book = if c.asks {
        OrderBook::new(1, None, Vec::<Level>::new(), pre.clone())
    } else {
        OrderBook::new(1, None, pre.clone(), Vec::<Level>::new())
    };
    let mut want = to_map(&pre);
    apply_update(&mut want, &raw);
    let ev = if c.asks {
        OrderBook::new(2, None, Vec::<Level>::new(), raw)
    } else {
        OrderBook::new(2, None, raw, Vec::<Level>::new())
    };
    book.update(OrderBookEvent::Update(ev));
    let empty = PMap::new();
    let (wb, wa) = if c.asks { (&empty, &want) } else { (&want, &empty) };
    let rep = d("1010.5");
    let got_side: Vec<Level> = if c.asks { book.asks().levels().to_vec() } else { book.bids().levels().to_vec() };
    let txt = || {
        format!(
            "update of {} {} levels, price {rep} listed at positions {} and {} with amounts {:?} (book held it: {}): book has {:?} at that price, a map fed the list in order has {:?}",
            c.n, if c.asks { "ask" } else { "bid" }, c.i, c.j, (raw_amt(c, 0), raw_amt(c, 1)), c.preloaded,
            got_side.iter().find(|l| l.price == rep).map(|l| l.amount), want.get(&rep)
        )
    };
    let mut v = Vec::new();
    check_book("update", "", &book, wb, wa, 2, &|| String::new(), &mut v);
    // keep the level lists and the depth-limited snapshots of the long book (depths up to and beyond its
    // length); sequence / mid prices of a long book add nothing to layer 1
    v.retain(|(s, _)| s.starts_with("C05/levels/") || s.starts_with("C05/snapshot-depth/"));
    let snap_viols: Vec<Viol> = v.iter().filter(|(s, _)| s.starts_with("C05/snapshot-depth/")).map(|(s, d)| (format!("{s}/long-book"), format!("book of {} {} levels{}", want.len(), if c.asks { "ask" } else { "bid" }, d.chars().take(300).collect::<String>()))).collect();
    v.retain(|(s, _)| s.starts_with("C05/levels/"));
    out.extend(snap_viols);
    if !v.is_empty() {
        // abstract cause: is the book what the map would hold had the two entries been applied in the
        // opposite order (the sort inside OrderBook::new does not keep equal prices in list order)?
        let mut swapped_raw = long_levels(c);
        swapped_raw.swap(c.i, c.j);
        let mut swapped = to_map(&pre);
        apply_update(&mut swapped, &swapped_raw);
        let sw: Vec<(Decimal, Decimal)> = if c.asks { swapped.into_iter().collect() } else { swapped.into_iter().rev().collect() };
        let g: Vec<(Decimal, Decimal)> = got_side.iter().map(|l| (l.price, l.amount)).collect();
        if g == sw {
            out.push(("C05/levels/long-update/repeated-price-applied-out-of-list-order".to_string(), txt()));
        } else {
            out.extend(v.into_iter().map(|(s, _)| (s, txt())));
        }
    }
    hash_of(&St(book))
}

fn raw_amt(c: &LongCase, k: usize) -> &'static str {
    ["0", "5", "7"][if k == 0 { c.amounts.0 } else { c.amounts.1 } as usize]
}

fn long_cases(ns: &[usize]) -> Vec<LongCase> {
    let mut v = Vec::new();
    for asks in [false, true] {
        for &n in ns {
            for i in 0..n {
                for j in (i + 1)..n {
                    for order in 0..3u8 {
                        for amounts in [(1u8, 2u8), (2, 0), (0, 1)] {
                            for preloaded in [false, true] {
                                v.push(LongCase { asks, n, i, j, order, amounts, preloaded });
                            }
                        }
                    }
                }
            }
        }
    }
    v
}

// ------------------------------------------------------------------------------------------------
// Layer 4: BIG books. For EVERY length n up to the bound and each side: a snapshot of n levels (listed
// worst-first), then one update that inserts behind the worst level, inserts in front of the best,
// replaces the middle level, deletes the best of the snapshot and deletes an absent price. The map has
// no notion of a maximum depth; a venue's depth (1000 / 5000 levels) is not the book's.
// ------------------------------------------------------------------------------------------------

#[derive(Clone, Debug, Serialize, Deserialize)]
pub struct BigCase {
    pub asks: bool,
    pub n: usize,
}

fn big_check(c: &BigCase, out: &mut Vec<Viol>) -> u64 {
    let n = c.n as i64;
    // prices 1..=n; "better" = lower for asks, higher for bids. listed worst-first (unsorted for the book)
    let mut snap: Vec<Level> = (1..=n).map(|p| Level::new(Decimal::from(p), d("1"))).collect();
    if c.asks {
        snap.reverse();
    }
    let (best, worst_next, front) = if c.asks { (1, n + 1, d("0.5")) } else { (n, 0, Decimal::from(n) + d("0.5")) };
    let mut upd = vec![
        Level::new(if c.asks { Decimal::from(worst_next) } else { d("0.25") }, d("2")), // behind the worst level
        Level::new(front, d("3")),                                                    // in front of the best
        Level::new(Decimal::from((n + 1) / 2), d("9")),                               // replace the middle level
        Level::new(Decimal::from(n + 7), d("0")),                                     // delete an absent price
    ];
    if n >= 3 {
        upd.push(Level::new(Decimal::from(best), d("0"))); // delete the snapshot's best level
    }
    let _ = worst_next;
    let mut want = to_map(&snap);
    // the OTHER side holds n levels as well (the book then holds 2n levels in all; a map per side has no
    // notion of a total either) and must stay as it is: bids far below the asks under test, asks far above
    // the bids under test
    let other: Vec<Level> = (1..=n)
        .map(|p| if c.asks { Level::new(Decimal::new(p, 5), d("1")) } else { Level::new(Decimal::from(n + 100 + p), d("1")) })
        .collect();
    let want_other = to_map(&other);
    let mut book = OrderBook::default();
    let sides = |l: Vec<Level>, o: Vec<Level>| if c.asks { (o, l) } else { (l, o) };
    for (step, (kind, seq, levels)) in [("snapshot", 1u64, snap.clone()), ("update", 2u64, upd.clone())].into_iter().enumerate() {
        if step == 0 {
            let (b, a) = sides(levels.clone(), other.clone());
            book.update(OrderBookEvent::Snapshot(OrderBook::new(seq, None, b, a)));
        } else {
            let (b, a) = sides(levels.clone(), Vec::new());
            apply_update(&mut want, &levels);
            book.update(OrderBookEvent::Update(OrderBook::new(seq, None, b, a)));
        }
        let (wb, wa) = if c.asks { (&want_other, &want) } else { (&want, &want_other) };
        let mut v = Vec::new();
        check_book(kind, "", &book, wb, wa, seq, &|| String::new(), &mut v);
        let got_len = if c.asks { book.asks().levels().len() } else { book.bids().levels().len() };
        for (sig, detail) in v {
            out.push((
                format!("{sig}/big-book"),
                format!("{} side, {kind} on a book of {} levels: book holds {got_len} levels, the map {}{}", if c.asks { "ask" } else { "bid" }, c.n, want.len(), detail.chars().take(200).collect::<String>()),
            ));
        }
        if !out.is_empty() {
            break;
        }
    }
    hash_of(&St(book))
}

// ------------------------------------------------------------------------------------------------
// Layer 6: WIDE updates. One update carrying n levels for one side (n up to the bound; a venue's depth diff
// after a burst, or a venue that sends the whole side as an "update"): the quantifier speaks of arbitrary level
// lists, a map has no maximum number of entries per update. The book holds the even prices 2..=2n; the update
// lists the prices 1..=n in a scrambled order (stride permutation) with amounts 0 / 5 / 7 by position, i.e.
// deletes of present and of absent levels, replacements and inserts all over the book, and - for n >= 2 - its
// LAST entry repeats the price of its FIRST entry with another amount (the later entry wins).
// ------------------------------------------------------------------------------------------------

#[derive(Clone, Debug, Serialize, Deserialize)]
pub struct WideCase {
    pub asks: bool,
    pub n: usize,
}

fn wide_lengths(max: usize) -> Vec<usize> {
    // every length to 70, then around every power of two / round number up to the bound (a limit or a switch
    // of algorithm at some length shows for every longer update, so the larger lengths need not be dense)
    let mut v: Vec<usize> = (1..=70).collect();
    for base in [100usize, 128, 200, 250, 256, 500, 512, 1000, 1024, 2000, 2048, 4096, 5000, 8192, 10000] {
        for n in [base - 1, base, base + 1] {
            if n <= max && !v.contains(&n) {
                v.push(n);
            }
        }
    }
    if !v.contains(&max) {
        v.push(max);
    }
    v.retain(|n| *n <= max);
    v
}

fn gcd(a: usize, b: usize) -> usize {
    if b == 0 { a } else { gcd(b, a % b) }
}

fn wide_levels(n: usize) -> Vec<Level> {
    let amts = [d("0"), d("5"), d("7")];
    // stride permutation of the prices 1..=n: position i lists price 1 + (i * step) mod n, step coprime to n
    let mut step = (n * 5 / 8).max(1);
    while gcd(step, n) != 1 {
        step += 1;
    }
    let mut raw: Vec<Level> = (0..n).map(|i| Level::new(Decimal::from(1 + (i * step) % n), amts[i % 3])).collect();
    if n >= 2 {
        // the last entry repeats the first entry's price with another amount
        // (the first entry has amount 0: "delete the absent price 1", then "set it")
        raw[n - 1] = Level::new(raw[0].price, amts[(n % 2) + 1]);
    }
    raw
}

fn wide_check(c: &WideCase, out: &mut Vec<Viol>) -> u64 {
    let n = c.n as i64;
    let pre: Vec<Level> = (1..=n).map(|k| Level::new(Decimal::from(2 * k), d("1"))).collect();
    let raw = wide_levels(c.n);
    let mut want = to_map(&pre);
    apply_update(&mut want, &raw);
    let sides = |l: Vec<Level>| if c.asks { (Vec::new(), l) } else { (l, Vec::new()) };
    let (b, a) = sides(pre);
    let mut book = OrderBook::new(1, None, b, a);
    let (b, a) = sides(raw);
    book.update(OrderBookEvent::Update(OrderBook::new(2, None, b, a)));
    let empty = PMap::new();
    let (wb, wa) = if c.asks { (&empty, &want) } else { (&want, &empty) };
    let mut v = Vec::new();
    check_book("update", "", &book, wb, wa, 2, &|| String::new(), &mut v);
    // the level lists and the depth-limited snapshots of the resulting book; sequence / mid prices add nothing
    // to layer 1 here
    v.retain(|(s, _)| s.starts_with("C05/levels/") || s.starts_with("C05/snapshot-depth/"));
    let got_len = if c.asks { book.asks().levels().len() } else { book.bids().levels().len() };
    for (sig, detail) in v {
        out.push((
            format!("{sig}/wide-update"),
            format!(
                "{} side, one update of {} levels (prices 1..={} scrambled, amounts 0/5/7, last entry repeats the first price) on a book of the {} even prices 2..={}: book holds {got_len} levels, the map {}{}",
                if c.asks { "ask" } else { "bid" }, c.n, c.n, c.n, 2 * c.n, want.len(), detail.chars().take(200).collect::<String>()
            ),
        ));
    }
    hash_of(&St(book))
}

// ------------------------------------------------------------------------------------------------
// Layer 7: LONG histories through the manager. Layers 1 and 2 reach every book over their alphabets within a
// few events; "after ANY sequence" also covers the thousands of events a book sees between two snapshots. One
// deterministic history of n deliveries (instruments 0 / 1 / un-configured interleaved irregularly, a
// Reconnecting notice every 61st, otherwise updates over 8 prices per side with amounts 0 / 5 / 7 / 3 that also
// leave a permanent per-event trace in the book, see `LongGen`; sequence number = position) is delivered (a) one
// by one, with a Snapshot every 97th - every configured book judged against ITS price->amount maps after every
// delivery - and (b) all queued before the manager is first polled - judged at the end.
// ------------------------------------------------------------------------------------------------

#[derive(Clone, Debug, Serialize, Deserialize)]
pub struct LongRun {
    pub single: bool,
    pub n: usize,
    pub burst: bool,
}

/// Generator of the long history. Delivery number `i` (1-based): None = Reconnecting notice, else
/// (instrument key, is snapshot, raw bids, raw asks).
///
/// Every event leaves a PERMANENT trace, so that a lost or doubled event still shows at the very end (the
/// table prices 10..17 / 20..27 are overwritten again and again and would hide it): the c-th event of an
/// instrument also sets the ask level 5000+c and deletes the ask level 5000+c-W (W = 64) that the event W places
/// earlier had set. The first event of every instrument is a Snapshot that seeds 5000-W+1..=5000, so every
/// delete hits a present level. A book that missed event c keeps level 5000+c-W for ever.
/// `snapshots`: every delivery with i % 97 == 5 is a (small) Snapshot, which starts the trail afresh - used
/// when the books are judged after every delivery, not when they are only judged at the end.
struct LongGen {
    c: [usize; 3],
    snapshots: bool,
}

const LONG_W: usize = 64;

impl LongGen {
    fn next(&mut self, i: usize) -> Option<(u8, bool, Vec<Level>, Vec<Level>)> {
        if i % 61 == 0 {
            return None;
        }
        let amts = [d("0"), d("5"), d("7"), d("3")];
        let inst = [0u8, 1, 0, 2, 1, 1, 0][i % 7];
        self.c[inst as usize] += 1;
        let c = self.c[inst as usize];
        let px = |base: i64, k: usize| Decimal::from(base + (k % 8) as i64);
        let side = |base: i64| (0..3usize).map(|k| Level::new(px(base, i + 3 * k), amts[1 + (i + k) % 3])).collect::<Vec<_>>();
        if c == 1 {
            let mut asks = side(20);
            asks.extend((1..=LONG_W).map(|k| Level::new(Decimal::from(5000 - LONG_W + k), d("1"))));
            Some((inst, true, side(10), asks))
        } else if self.snapshots && i % 97 == 5 {
            Some((inst, true, side(10), side(20)))
        } else {
            Some((
                inst,
                false,
                vec![Level::new(px(10, i * 5), amts[(i / 2) % 4]), Level::new(px(10, i * 3 + 1), amts[(i / 5) % 4])],
                vec![
                    Level::new(px(20, i * 7), amts[(i / 3) % 4]),
                    Level::new(Decimal::from(5000 + c - 1), d("1")),
                    Level::new(Decimal::from(5000 + c - 1 - LONG_W), d("0")),
                ],
            ))
        }
    }
}

impl MgrModel {
    fn long_run(&self, c: &LongRun, out: &mut Vec<Viol>) -> u64 {
        let tag = self.tag();
        let mode = if c.burst { "all-queued-before-first-poll" } else { "one-by-one" };
        let (books, tx, mut fut) = self.manager();
        let (flag, waker) = env::flag_waker();
        let mut want: [(PMap, PMap, u64); 2] = Default::default();
        let mut generator = LongGen { c: [0; 3], snapshots: !c.burst };
        let judge = |i: usize, want: &[(PMap, PMap, u64); 2], out: &mut Vec<Viol>| {
            for k in 0..self.configured() {
                let book = books[k].read().clone();
                let mut v = Vec::new();
                check_book("long-history", "", &book, &want[k].0, &want[k].1, want[k].2, &|| String::new(), &mut v);
                // levels and sequence only: the derived observers (mid prices, snapshot(d)) are layer 1's
                // business, a defect of theirs is not to be repeated under this layer's name
                v.retain(|(s, _)| s.starts_with("C05/levels/") || s.starts_with("C05/sequence/"));
                if let Some((sig, detail)) = v.into_iter().next() {
                    out.push((
                        format!("C05/{tag}/long-history/{mode}/book-differs-from-the-map-of-its-events"),
                        format!("after delivery {i} of {} ({mode}): book of instrument {k}: {sig}{}", c.n, detail.chars().take(300).collect::<String>()),
                    ));
                }
            }
        };
        for i in 1..=c.n {
            let delivery: Delivery = match generator.next(i) {
                None => Event::Reconnecting(ExchangeId::BinanceSpot),
                Some((inst, snap, b, a)) => {
                    if (inst as usize) < self.configured() {
                        let w = &mut want[inst as usize];
                        if snap {
                            w.0 = to_map(&b);
                            w.1 = to_map(&a);
                        } else {
                            apply_update(&mut w.0, &b);
                            apply_update(&mut w.1, &a);
                        }
                        w.2 = i as u64;
                    }
                    let book = OrderBook::new(i as u64, None, b, a);
                    Event::Item(MarketEvent {
                        time_exchange: Utc.timestamp_opt(1_700_000_000 + i as i64, 0).unwrap(),
                        time_received: Utc.timestamp_opt(1_700_000_001 + i as i64, 0).unwrap(),
                        exchange: [ExchangeId::BinanceSpot, ExchangeId::Kraken, ExchangeId::Okx][inst as usize % 3],
                        instrument: InstrumentIndex(inst as usize),
                        kind: if snap { OrderBookEvent::Snapshot(book) } else { OrderBookEvent::Update(book) },
                    })
                }
            };
            let _ = tx.unbounded_send(delivery);
            if !c.burst {
                if env::poll_quiesce(fut.as_mut(), &flag, &waker).is_ready() {
                    out.push((format!("C05/{tag}/long-history/run-ended-while-stream-open"), format!("at delivery {i} of {}", c.n)));
                    break;
                }
                judge(i, &want, out);
                if !out.is_empty() {
                    break; // the first divergence; later ones are its echo
                }
            }
        }
        if c.burst {
            if env::poll_quiesce(fut.as_mut(), &flag, &waker).is_ready() {
                out.push((format!("C05/{tag}/long-history/run-ended-while-stream-open"), format!("{} deliveries queued at once", c.n)));
            } else {
                judge(c.n, &want, out);
            }
        }
        let h = hash_of(&(St(books[0].read().clone()), St(books[1].read().clone())));
        h
    }
}

static PANICS: std::sync::atomic::AtomicU64 = std::sync::atomic::AtomicU64::new(0);

pub fn run(ctx: &Ctx) -> Outcome {
    // panics of the code under test are caught and judged; print only the first few messages
    std::panic::set_hook(Box::new(|info| {
        if PANICS.fetch_add(1, std::sync::atomic::Ordering::Relaxed) < 3 {
            eprintln!("panic (first 3 shown): {info}");
        }
    }));
    let mut per_model = Vec::new();
    let (mut states, mut transitions, mut max_depth, mut distinct_impl) = (0usize, 0u64, 0usize, 0usize);
    let mut samples = Vec::new();
    let labels: Vec<&str> = ctx.tier.pick(vec!["p3", "scales", "cross", "fine"], vec!["p3", "scales", "cross", "fine", "p4"]);
    for label in &labels {
        let m = M::by_label(label);
        let t = std::time::Instant::now();
        let st = bfs_stream(ctx, &m, label, 200_000);
        eprintln!("C05 bfs {label}: {} states {} transitions {:.1}s", st.states, st.transitions, t.elapsed().as_secs_f64());
        if !st.fixpoint {
            // cannot happen: successors are always well-formed books over the finite alphabet
            eprintln!("MACHINERY: C05 BFS {label} did not reach its fixpoint");
            std::process::exit(2);
        }
        states += st.states;
        transitions += st.transitions;
        max_depth = max_depth.max(st.max_depth);
        distinct_impl += st.distinct_impl_states;
        per_model.push(json!({
            "label": label, "actions_per_state": m.acts.len(), "states": st.states, "transitions": st.transitions,
            "max_depth": st.max_depth, "frontier_sizes": st.frontier_sizes, "fixpoint": st.fixpoint,
            "oracle_violation_steps": st.oracle_violation_steps,
        }));
        samples.extend(st.samples);
    }
    // layer 2
    let mgr = MgrModel::new();
    let mgr_len = ctx.tier.pick(4, 5);
    let t = std::time::Instant::now();
    let ms = seq::run(ctx, &mgr, "manager", mgr_len);
    eprintln!("C05 manager: {} sequences {:.1}s", ms.sequences, t.elapsed().as_secs_f64());
    let mgr1 = MgrModel::with_map(true);
    let t = std::time::Instant::now();
    let ms1 = seq::run(ctx, &mgr1, "manager-single", mgr_len);
    eprintln!("C05 manager-single: {} sequences {:.1}s", ms1.sequences, t.elapsed().as_secs_f64());
    // layer 5: reader contention (menu events 0, 2, 3 change an empty book)
    let mut contention_cases = 0u64;
    let mut barriers: BTreeMap<&'static str, u64> = BTreeMap::new();
    for (model, single) in [(&mgr, false), (&mgr1, true)] {
        for ev in 0..model.menu.len() as u8 {
            let mut out = Vec::new();
            match std::panic::catch_unwind(std::panic::AssertUnwindSafe(|| model.contention_check(ev, &mut out))) {
                Ok((_, barrier)) => *barriers.entry(barrier).or_insert(0) += 1,
                Err(_) => out.push((format!("C05/{}/reader-holds-book/panic", model.tag()), format!("panic on menu event {ev}"))),
            }
            contention_cases += 1;
            for (sig, detail) in out {
                ctx.violate(sig, detail, json!({"engine": "reader-contention", "single": single, "ev": ev}));
            }
        }
    }
    // layer 3
    let ns: Vec<usize> = ctx.tier.pick((2..=40).collect(), (2..=48).chain([64, 65, 100]).collect());
    let cases = long_cases(&ns);
    let long_distinct = Distinct::default();
    let long_fail: std::sync::Mutex<BTreeMap<usize, u64>> = Default::default();
    cases.par_iter().for_each(|c| {
        let mut out = Vec::new();
        match std::panic::catch_unwind(std::panic::AssertUnwindSafe(|| long_check(c, &mut out))) {
            Ok(h) => long_distinct.add_hash(h),
            Err(_) => out.push(("C05/panic/long-update".to_string(), format!("panic on {c:?}"))),
        }
        if !out.is_empty() {
            *long_fail.lock().unwrap().entry(c.n).or_insert(0) += 1;
        }
        for (sig, detail) in out {
            ctx.violate(sig, detail, json!({"engine": "long-update", "case": c}));
        }
    });
    // layer 4
    let big_max: usize = ctx.tier.pick(1100, 5200);
    let big_cases: Vec<BigCase> = [false, true].into_iter().flat_map(|asks| (1..=big_max).map(move |n| BigCase { asks, n })).collect();
    let big_distinct = Distinct::default();
    let t = std::time::Instant::now();
    big_cases.par_iter().for_each(|c| {
        let mut out = Vec::new();
        match std::panic::catch_unwind(std::panic::AssertUnwindSafe(|| big_check(c, &mut out))) {
            Ok(h) => big_distinct.add_hash(h),
            Err(_) => out.push(("C05/panic/big-book".to_string(), format!("panic on {c:?}"))),
        }
        for (sig, detail) in out {
            ctx.violate(sig, detail, json!({"engine": "big-book", "case": c}));
        }
    });
    eprintln!("C05 big books: {} cases {:.1}s", big_cases.len(), t.elapsed().as_secs_f64());
    // layer 6: wide updates
    let wide_ns = wide_lengths(ctx.tier.pick(1100, 10_001));
    let wide_cases: Vec<WideCase> = [false, true].into_iter().flat_map(|asks| wide_ns.iter().map(move |n| WideCase { asks, n: *n })).collect();
    let wide_distinct = Distinct::default();
    let t = std::time::Instant::now();
    wide_cases.par_iter().for_each(|c| {
        let mut out = Vec::new();
        match std::panic::catch_unwind(std::panic::AssertUnwindSafe(|| wide_check(c, &mut out))) {
            Ok(h) => wide_distinct.add_hash(h),
            Err(_) => out.push(("C05/panic/wide-update".to_string(), format!("panic on {c:?}"))),
        }
        for (sig, detail) in out {
            ctx.violate(sig, detail, json!({"engine": "wide-update", "case": c}));
        }
    });
    eprintln!("C05 wide updates: {} cases {:.1}s", wide_cases.len(), t.elapsed().as_secs_f64());
    // layer 7: long histories through the manager
    let long_n: usize = ctx.tier.pick(2600, 21_000);
    let long_runs: Vec<LongRun> = [false, true].into_iter().flat_map(|single| [false, true].into_iter().map(move |burst| LongRun { single, n: long_n, burst })).collect();
    let long_run_distinct = Distinct::default();
    let t = std::time::Instant::now();
    long_runs.par_iter().for_each(|c| {
        let model = MgrModel::with_map(c.single);
        let mut out = Vec::new();
        match std::panic::catch_unwind(std::panic::AssertUnwindSafe(|| model.long_run(c, &mut out))) {
            Ok(h) => long_run_distinct.add_hash(h),
            Err(_) => out.push((format!("C05/{}/long-history/panic", model.tag()), format!("panic on {c:?}"))),
        }
        for (sig, detail) in out {
            ctx.violate(sig, detail, json!({"engine": "long-history", "case": c}));
        }
    });
    eprintln!("C05 long histories: {} runs of {} deliveries {:.1}s", long_runs.len(), long_n, t.elapsed().as_secs_f64());
    let long_fail: Vec<Value> = long_fail.into_inner().unwrap().into_iter().map(|(n, k)| json!({"levels": n, "failing_cases": k})).collect();
    Outcome {
        level: "model_checking",
        coverage: json!({
            "states": states,
            "transitions": transitions,
            "traces_validated_against_impl": transitions,
            "max_depth": max_depth,
            "fixpoint_reached": true,
            "exhaustive": true,
            "distinct_impl_states": distinct_impl,
            "per_model": per_model,
            "samples": samples,
            "manager_layer": {"max_len": mgr_len, "sequences": ms.sequences, "steps": ms.steps, "distinct_final": ms.distinct_final,
                              "alphabet": "Reconnecting + 5 events x {instrument 0, instrument 1, unconfigured key}",
                              "delivery": "one by one (books judged after every delivery) and, for every sequence of >= 2, all queued before the manager is polled"},
            "manager_single_layer": {"max_len": mgr_len, "sequences": ms1.sequences, "steps": ms1.steps, "distinct_final": ms1.distinct_final,
                              "alphabet": "OrderBookMapSingle(instrument 0): Reconnecting + 5 events x {instrument 0, two unconfigured keys}; same two delivery modes"},
            "long_update_layer": {"evaluations": cases.len(), "distinct_final_books": long_distinct.len(), "lengths": ns, "lengths_with_failures": long_fail},
            "reader_contention_layer": {"evaluations": contention_cases, "barrier_outcomes": barriers, "rule": "a reader holds the instrument's book while the manager is handed an event for it; once the reader has left the book is the event applied"},
            "big_book_layer": {"evaluations": big_cases.len(), "distinct_final_books": big_distinct.len(), "lengths": format!("every n in 1..={big_max}, both sides"),
                               "events": "snapshot of n levels listed worst-first, then one update: insert behind the worst, insert in front of the best, replace the middle, delete the best, delete an absent price"},
            "wide_update_layer": {"evaluations": wide_cases.len(), "distinct_final_books": wide_distinct.len(), "lengths": wide_ns,
                               "events": "book of the n even prices 2..=2n, then ONE update of n levels: prices 1..=n in a stride-permuted order, amounts 0/5/7 by position, last entry repeats the first entry's price"},
            "long_history_layer": {"evaluations": long_runs.len(), "deliveries_per_run": long_n, "distinct_final_books": long_run_distinct.len(),
                               "rule": "one deterministic history (instruments 0/1/un-configured interleaved, Reconnecting every 61st, updates over 8 prices per side; every event also sets one ask level of its own and deletes the one set 64 events earlier, so a lost event leaves a level behind for ever; sequence = position) through the real manager with both map kinds, one by one with a Snapshot every 97th (books vs price->amount maps after EVERY delivery) and all queued before the first poll (judged at the end)"},
            "rule": "BFS to fixpoint; state = the real OrderBook; every transition = OrderBook::update of one Snapshot/Update event built by OrderBook::new from an unsorted level list; compared with BTreeMap<price,amount> per side (levels+order, sequence, mid, vw-mid, snapshot(d) for d in 0..=5, around the book length and usize::MAX)",
        }),
        assumptions: vec![
            "snapshots are well-formed (distinct prices, positive amounts); duplicates and zero amounts only inside updates".into(),
            "a price repeated inside one update is applied in list order (the later entry wins), as a map fed the list would".into(),
            "one-sided book: mid / volume-weighted mid may be None or the only best price (the statement does not define it); volume weighting: either convention accepted".into(),
            "time_engine is not judged (not mentioned by the statement), neither in the manager layers (books are compared by levels and sequence)".into(),
            "mid-price and volume-weighted mid-price are compared as values: within (|best bid| + |best ask|) * 1e-24 of the reference formula or of the exact rational value".into(),
            "events are built with OrderBook::new as every connector does; value alphabets avoid Decimal overflow".into(),
            "an update may carry any number of levels and a book may receive any number of events (layers 6 and 7 go to the stated bounds)".into(),
            "bids and asks are independent maps: a crossed book (bid >= ask) keeps every level of both sides".into(),
            "the manager applies every delivered event in delivery order whatever the envelope's exchange / receive timestamps (they go up and down along a sequence)".into(),
            "the manager's books are the fold of every delivered event whether deliveries are consumed one by one or found queued together, and whether or not a reader holds the book at that moment (judged once the reader has left)".into(),
        ],
    }
}

pub fn replay(ctx: &Ctx, case: &Value) {
    let viols = match case["engine"].as_str().unwrap_or("bfs") {
        "bfs" => bfs::replay(&M::by_label(case["label"].as_str().unwrap_or("p3")), case),
        "seq" => seq::replay(&MgrModel::with_map(case["label"].as_str() == Some("manager-single")), case),
        "long-update" => {
            let c: LongCase = serde_json::from_value(case["case"].clone()).expect("replay: bad long-update case");
            let mut out = Vec::new();
            long_check(&c, &mut out);
            for (s, d) in &out {
                println!("    {s}: {d}");
            }
            out
        }
        "reader-contention" => {
            let model = MgrModel::with_map(case["single"].as_bool().unwrap_or(false));
            let mut out = Vec::new();
            let _ = model.contention_check(case["ev"].as_u64().unwrap_or(0) as u8, &mut out);
            for (s, d) in &out {
                println!("    {s}: {d}");
            }
            out
        }
        "big-book" => {
            let c: BigCase = serde_json::from_value(case["case"].clone()).expect("replay: bad big-book case");
            let mut out = Vec::new();
            big_check(&c, &mut out);
            for (s, d) in &out {
                println!("    {s}: {d}");
            }
            out
        }
        "wide-update" => {
            let c: WideCase = serde_json::from_value(case["case"].clone()).expect("replay: bad wide-update case");
            let mut out = Vec::new();
            wide_check(&c, &mut out);
            for (s, d) in &out {
                println!("    {s}: {d}");
            }
            out
        }
        "long-history" => {
            let c: LongRun = serde_json::from_value(case["case"].clone()).expect("replay: bad long-history case");
            let mut out = Vec::new();
            MgrModel::with_map(c.single).long_run(&c, &mut out);
            for (s, d) in &out {
                println!("    {s}: {d}");
            }
            out
        }
        other => panic!("C05 replay: unknown engine {other}"),
    };
    for (sig, detail) in viols {
        ctx.violate(sig, detail, case.clone());
    }
}
