//! vcheck — bounded-exhaustive model checking of the barter-rs properties C01..C20 against the real
//! code in /repo. Usage: vcheck <Cxx> [--tier quick|thorough] [--replay <file>]
#![allow(dead_code, unused_imports, unused_variables)]
#![allow(clippy::type_complexity)]

mod core;
mod explore;
mod props;
mod selftest;

use crate::core::{Ctx, Outcome, Tier};
use serde_json::Value;

fn run_prop(ctx: &Ctx) -> Outcome {
    match ctx.prop.as_str() {
        "C01" => props::c01::run(ctx),
        "C02" => props::c02::run(ctx),
        "C03" => props::c03::run(ctx),
        "C04" => props::c04::run(ctx),
        "C05" => props::c05::run(ctx),
        "C06" => props::c06::run(ctx),
        "C07" => props::c07::run(ctx),
        "C08" => props::c08::run(ctx),
        "C09" => props::c09::run(ctx),
        "C10" => props::c10::run(ctx),
        "C11" => props::c11::run(ctx),
        "C12" => props::c12::run(ctx),
        "C13" => props::c13::run(ctx),
        "C14" => props::c14::run(ctx),
        "C15" => props::c15::run(ctx),
        "C16" => props::c16::run(ctx),
        "C17" => props::c17::run(ctx),
        "C18" => props::c18::run(ctx),
        "C19" => props::c19::run(ctx),
        "C20" => props::c20::run(ctx),
        other => {
            eprintln!("MACHINERY: unknown property {other}");
            std::process::exit(2)
        }
    }
}

fn replay_prop(ctx: &Ctx, case: &Value) {
    match ctx.prop.as_str() {
        "C01" => props::c01::replay(ctx, case),
        "C02" => props::c02::replay(ctx, case),
        "C03" => props::c03::replay(ctx, case),
        "C04" => props::c04::replay(ctx, case),
        "C05" => props::c05::replay(ctx, case),
        "C06" => props::c06::replay(ctx, case),
        "C07" => props::c07::replay(ctx, case),
        "C08" => props::c08::replay(ctx, case),
        "C09" => props::c09::replay(ctx, case),
        "C10" => props::c10::replay(ctx, case),
        "C11" => props::c11::replay(ctx, case),
        "C12" => props::c12::replay(ctx, case),
        "C13" => props::c13::replay(ctx, case),
        "C14" => props::c14::replay(ctx, case),
        "C15" => props::c15::replay(ctx, case),
        "C16" => props::c16::replay(ctx, case),
        "C17" => props::c17::replay(ctx, case),
        "C18" => props::c18::replay(ctx, case),
        "C19" => props::c19::replay(ctx, case),
        "C20" => props::c20::replay(ctx, case),
        other => {
            eprintln!("MACHINERY: unknown property {other}");
            std::process::exit(2)
        }
    }
}

fn main() {
    let args: Vec<String> = std::env::args().skip(1).collect();
    if args.is_empty() {
        eprintln!("usage: vcheck <Cxx> [--tier quick|thorough] [--replay <file>]");
        std::process::exit(2);
    }
    let prop = args[0].clone();
    if prop == "selftest" {
        std::process::exit(selftest::run());
    }
    let mut tier = match std::env::var("VERIF_TIER").ok().as_deref() {
        Some("thorough") => Tier::Thorough,
        _ => Tier::Quick,
    };
    let mut replay: Option<String> = None;
    let mut i = 1;
    while i < args.len() {
        match args[i].as_str() {
            "--tier" => {
                i += 1;
                tier = match args.get(i).map(|s| s.as_str()) {
                    Some("thorough") => Tier::Thorough,
                    Some("quick") => Tier::Quick,
                    other => {
                        eprintln!("MACHINERY: bad tier {other:?}");
                        std::process::exit(2)
                    }
                };
            }
            "--replay" => {
                i += 1;
                replay = args.get(i).cloned();
            }
            other => {
                eprintln!("MACHINERY: unknown argument {other}");
                std::process::exit(2)
            }
        }
        i += 1;
    }
    let seed: i64 = std::env::var("VERIF_SEED").ok().and_then(|s| s.parse().ok()).unwrap_or(0);
    let threads: usize = std::env::var("VERIF_THREADS").ok().and_then(|s| s.parse().ok()).unwrap_or(16);
    rayon::ThreadPoolBuilder::new()
        .num_threads(threads)
        .stack_size(64 * 1024 * 1024)
        .build_global()
        .expect("rayon pool");

    let ctx = Ctx::new(&prop, tier, seed);

    if let Some(path) = replay {
        let text = std::fs::read_to_string(&path).unwrap_or_else(|e| {
            eprintln!("MACHINERY: cannot read {path}: {e}");
            std::process::exit(2)
        });
        let v: Value = serde_json::from_str(&text).unwrap_or_else(|e| {
            eprintln!("MACHINERY: cannot parse {path}: {e}");
            std::process::exit(2)
        });
        let case = if v.get("case").is_some() { v["case"].clone() } else { v };
        replay_prop(&ctx, &case);
        let n = ctx.violations.len();
        for (v, _) in ctx.violations.drain() {
            println!("REPLAY-VIOLATION property={} signature={}", prop, v.signature);
            println!("  detail: {}", v.detail);
        }
        println!("replay finished: {n} violation signature(s)");
        std::process::exit(if n == 0 { 0 } else { 1 });
    }

    // A panic inside the machinery (not inside a guarded call of the subject) is a machinery failure.
    let result = std::panic::catch_unwind(std::panic::AssertUnwindSafe(|| run_prop(&ctx)));
    match result {
        Ok(outcome) => {
            let code = crate::core::finish(&ctx, outcome);
            std::process::exit(code);
        }
        Err(_) => {
            eprintln!("MACHINERY: engine panicked (see message above); no verdict");
            std::process::exit(2);
        }
    }
}
