//! Shared plumbing: tiers, violation collector (signature keyed), evidence writer, known findings,
//! replay artefacts.

use serde::{Deserialize, Serialize};
use serde_json::{Value, json};
use std::{
    collections::BTreeMap,
    path::PathBuf,
    sync::Mutex,
    time::Instant,
};

/// Root under which evidence/, replays/ and known_findings.json live (overridable for scratch work).
pub fn verif_root() -> PathBuf {
    PathBuf::from(std::env::var("VERIF_ROOT").unwrap_or_else(|_| "/verif".to_string()))
}

#[derive(Debug, Clone, Copy, PartialEq, Eq)]
pub enum Tier {
    Quick,
    Thorough,
}

impl Tier {
    pub fn as_str(&self) -> &'static str {
        match self {
            Tier::Quick => "quick",
            Tier::Thorough => "thorough",
        }
    }
    pub fn pick<T>(&self, quick: T, thorough: T) -> T {
        match self {
            Tier::Quick => quick,
            Tier::Thorough => thorough,
        }
    }
}

/// One violation of a property: `signature` is the abstract cause (stable across histories),
/// `detail` is human readable observed-vs-allowed, `case` is the replayable input.
#[derive(Debug, Clone, Serialize, Deserialize)]
pub struct Violation {
    pub signature: String,
    pub detail: String,
    pub case: Value,
}

#[derive(Default)]
pub struct Collector {
    inner: Mutex<BTreeMap<String, (Violation, u64, (usize, String))>>,
}

impl Collector {
    /// Record a violation. Keeps, per signature, the case with the smallest (size, json) rank so the
    /// retained counter-example is deterministic under parallel exploration and is the shortest.
    pub fn report(&self, signature: impl Into<String>, detail: impl Into<String>, case: Value) {
        let signature = signature.into();
        let text = case.to_string();
        let rank = (text.len(), text);
        let mut g = self.inner.lock().unwrap();
        match g.get_mut(&signature) {
            Some((v, n, r)) => {
                *n += 1;
                if rank < *r {
                    *v = Violation {
                        signature: signature.clone(),
                        detail: detail.into(),
                        case,
                    };
                    *r = rank;
                }
            }
            None => {
                g.insert(
                    signature.clone(),
                    (
                        Violation {
                            signature,
                            detail: detail.into(),
                            case,
                        },
                        1,
                        rank,
                    ),
                );
            }
        }
    }

    /// Count one more occurrence of an already reported signature.
    pub fn bump(&self, signature: &str) {
        if let Some((_, n, _)) = self.inner.lock().unwrap().get_mut(signature) {
            *n += 1;
        }
    }

    pub fn len(&self) -> usize {
        self.inner.lock().unwrap().len()
    }

    pub fn drain(&self) -> Vec<(Violation, u64)> {
        let g = self.inner.lock().unwrap();
        g.values().map(|(v, n, _)| (v.clone(), *n)).collect()
    }
}

/// What a property run reports back to the driver.
pub struct Outcome {
    /// evidence level: "model_checking" | "exploration" | "fault_enumeration"
    pub level: &'static str,
    /// coverage object (keys per EVIDENCE.schema.json)
    pub coverage: Value,
    pub assumptions: Vec<String>,
}

pub struct Ctx {
    pub prop: String,
    pub tier: Tier,
    pub seed: i64,
    pub start: Instant,
    pub violations: Collector,
    /// true when running a single replay artefact rather than an exploration
    pub replay: Option<Value>,
}

impl Ctx {
    pub fn new(prop: &str, tier: Tier, seed: i64) -> Self {
        Self {
            prop: prop.to_string(),
            tier,
            seed,
            start: Instant::now(),
            violations: Collector::default(),
            replay: None,
        }
    }
    pub fn violate(&self, signature: impl Into<String>, detail: impl Into<String>, case: Value) {
        self.violations.report(signature, detail, case)
    }
}

#[derive(Debug, Deserialize)]
pub struct KnownFinding {
    pub property: String,
    pub signature: String,
    pub status: String, // "open" | "fixed"
    #[serde(default)]
    pub what: String,
    #[serde(default)]
    pub commit: Option<String>,
    #[serde(default)]
    pub line: Option<String>,
}

#[derive(Debug, Deserialize, Default)]
pub struct KnownFindings {
    #[serde(default)]
    pub findings: Vec<KnownFinding>,
}

pub fn load_known_findings() -> KnownFindings {
    let path = verif_root().join("known_findings.json");
    match std::fs::read_to_string(&path) {
        Ok(s) => serde_json::from_str(&s).unwrap_or_else(|e| {
            eprintln!("MACHINERY: cannot parse {}: {e}", path.display());
            std::process::exit(2)
        }),
        Err(_) => KnownFindings::default(),
    }
}

fn sanitize(sig: &str) -> String {
    let mut s: String = sig
        .chars()
        .map(|c| if c.is_ascii_alphanumeric() || c == '-' || c == '_' { c } else { '_' })
        .collect();
    s.truncate(120);
    s
}

/// Write evidence, replay artefacts, print VIOLATION / KNOWN-FINDING lines; returns exit code.
pub fn finish(ctx: &Ctx, outcome: Outcome) -> i32 {
    let wall = ctx.start.elapsed().as_secs_f64();
    let known = load_known_findings();
    let all = ctx.violations.drain();

    let mut new_violations = Vec::new();
    let mut known_hits = Vec::new();
    for (v, n) in &all {
        let hit = known.findings.iter().find(|k| {
            k.property == ctx.prop && k.status == "open" && k.signature == v.signature
        });
        match hit {
            Some(k) => known_hits.push((v, *n, k)),
            None => new_violations.push((v, *n)),
        }
    }

    let replay_dir = verif_root().join("replays").join(&ctx.prop);
    let _ = std::fs::create_dir_all(&replay_dir);
    let mut replay_paths = Vec::new();
    for (v, n) in all.iter() {
        let path = replay_dir.join(format!("{}.json", sanitize(&v.signature)));
        let body = json!({
            "property": ctx.prop,
            "signature": v.signature,
            "detail": v.detail,
            "occurrences": n,
            "case": v.case,
        });
        let _ = std::fs::write(&path, serde_json::to_string_pretty(&body).unwrap());
        replay_paths.push((v.signature.clone(), path));
    }

    // evidence
    let mut coverage = outcome.coverage;
    if let Value::Object(m) = &mut coverage {
        m.insert(
            "violation_signatures".into(),
            json!(all.iter().map(|(v, n)| json!({"signature": v.signature, "occurrences": n})).collect::<Vec<_>>()),
        );
        m.insert(
            "known_findings_matched".into(),
            json!(known_hits.iter().map(|(v, _, _)| v.signature.clone()).collect::<Vec<_>>()),
        );
    }
    let evidence = json!({
        "property_id": ctx.prop,
        "tier": ctx.tier.as_str(),
        "seed": ctx.seed,
        "level": outcome.level,
        "coverage": coverage,
        "assumptions": outcome.assumptions,
        "wall_s": wall,
        "violations": new_violations.len(),
    });
    let ev_dir = verif_root().join("evidence");
    let _ = std::fs::create_dir_all(&ev_dir);
    let ev_path = ev_dir.join(format!("{}.json", ctx.prop));
    if let Err(e) = std::fs::write(&ev_path, serde_json::to_string_pretty(&evidence).unwrap()) {
        eprintln!("MACHINERY: cannot write evidence {}: {e}", ev_path.display());
        return 2;
    }

    for (v, n, k) in &known_hits {
        println!(
            "KNOWN-FINDING: property={} {} [{}; {} occurrences]",
            ctx.prop, k.what, v.signature, n
        );
    }
    for (v, n) in &new_violations {
        let path = replay_paths
            .iter()
            .find(|(s, _)| *s == v.signature)
            .map(|(_, p)| p.display().to_string())
            .unwrap_or_default();
        println!("VIOLATION property={} replay={}", ctx.prop, path);
        println!("  signature: {}", v.signature);
        println!("  detail: {}", v.detail);
        println!("  occurrences: {n}");
    }
    let cov_summary = evidence["coverage"].clone();
    let mut brief = serde_json::Map::new();
    if let Value::Object(m) = cov_summary {
        for (k, v) in m {
            if v.is_number() || v.is_boolean() {
                brief.insert(k, v);
            }
        }
    }
    println!(
        "{} tier={} level={} wall_s={:.1} violations={} known={} coverage={}",
        ctx.prop,
        ctx.tier.as_str(),
        outcome.level,
        wall,
        new_violations.len(),
        known_hits.len(),
        Value::Object(brief)
    );
    if new_violations.is_empty() { 0 } else { 1 }
}

/// Small helper for keeping the first few samples of explored cases.
pub struct Samples {
    inner: Mutex<Vec<Value>>,
    cap: usize,
}
impl Samples {
    pub fn new(cap: usize) -> Self {
        Self { inner: Mutex::new(Vec::new()), cap }
    }
    pub fn offer(&self, f: impl FnOnce() -> Value) {
        let mut g = self.inner.lock().unwrap();
        if g.len() < self.cap {
            g.push(f());
        }
    }
    pub fn take(&self) -> Vec<Value> {
        self.inner.lock().unwrap().clone()
    }
}

/// Distinct counter by hashing canonical strings/values (64-bit fnv of debug/json form).
#[derive(Default)]
pub struct Distinct {
    inner: Mutex<std::collections::HashSet<u64>>,
}
impl Distinct {
    pub fn add_hash(&self, h: u64) {
        self.inner.lock().unwrap().insert(h);
    }
    pub fn add<T: std::hash::Hash>(&self, t: &T) {
        use std::hash::Hasher;
        let mut h = fnv::FnvHasher::default();
        t.hash(&mut h);
        self.add_hash(h.finish());
    }
    pub fn merge_local(&self, local: &std::collections::HashSet<u64>) {
        let mut g = self.inner.lock().unwrap();
        g.extend(local.iter().copied());
    }
    pub fn len(&self) -> usize {
        self.inner.lock().unwrap().len()
    }
}

pub fn hash_of<T: std::hash::Hash>(t: &T) -> u64 {
    use std::hash::Hasher;
    let mut h = fnv::FnvHasher::default();
    t.hash(&mut h);
    h.finish()
}

thread_local! {
    static QUIET_PANICS: std::cell::Cell<bool> = const { std::cell::Cell::new(false) };
}

/// Run code of the subject under test; a panic inside it is returned as Err(()) without the default
/// hook printing a message / backtrace for it (a mutated subject can panic millions of times).
pub fn guarded<T>(f: impl FnOnce() -> T) -> Result<T, ()> {
    static ONCE: std::sync::Once = std::sync::Once::new();
    ONCE.call_once(|| {
        let prev = std::panic::take_hook();
        std::panic::set_hook(Box::new(move |info| {
            if !QUIET_PANICS.with(|q| q.get()) {
                prev(info)
            }
        }));
    });
    let before = QUIET_PANICS.with(|q| q.replace(true));
    let r = std::panic::catch_unwind(std::panic::AssertUnwindSafe(f));
    QUIET_PANICS.with(|q| q.set(before));
    r.map_err(|_| ())
}
