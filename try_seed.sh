#!/bin/sh
# usage: try_seed.sh <patch.diff> Cxx [tier] : apply to /repo, run the check, restore
if [ -n "$(git -C /repo status --porcelain --untracked-files=no)" ]; then echo "/repo dirty" >&2; exit 2; fi
git -C /repo apply "$1" || exit 2
cd /verif && ./check "$2" --tier "${3:-quick}"; code=$?
git -C /repo checkout -- .
echo "exit=$code"
