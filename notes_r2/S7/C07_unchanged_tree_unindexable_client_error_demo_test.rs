use barter::execution::{manager::ExecutionManager, request::ExecutionRequest, AccountStreamEvent};
use barter_execution::{
    UnindexedAccountEvent, UnindexedAccountSnapshot,
    balance::AssetBalance,
    client::ExecutionClient,
    error::{ApiError, UnindexedClientError, UnindexedOrderError},
    indexer::AccountEventIndexer,
    map::generate_execution_instrument_map,
    order::{
        Order, OrderEvent, OrderKey, OrderKind, TimeInForce,
        id::{ClientOrderId, StrategyId},
        request::{OrderRequestCancel, OrderRequestOpen, RequestOpen, UnindexedOrderResponseCancel},
        state::Open,
    },
    trade::Trade,
};
use barter_instrument::{
    Side, Underlying,
    asset::{QuoteAsset, name::AssetNameExchange},
    exchange::{ExchangeId, ExchangeIndex},
    index::IndexedInstruments,
    instrument::{Instrument, InstrumentIndex, name::InstrumentNameExchange},
};
use barter_integration::channel::{Tx, mpsc_unbounded};
use chrono::{DateTime, Utc};
use rust_decimal::Decimal;
use std::{future::Future, sync::Arc, time::Duration};

#[derive(Clone)]
struct C;

impl ExecutionClient for C {
    const EXCHANGE: ExchangeId = ExchangeId::BinanceSpot;
    type Config = ();
    type AccountStream = futures::stream::Empty<UnindexedAccountEvent>;
    fn new(_: ()) -> Self { C }
    async fn account_snapshot(&self, _: &[AssetNameExchange], _: &[InstrumentNameExchange]) -> Result<UnindexedAccountSnapshot, UnindexedClientError> {
        Err(UnindexedClientError::AccountSnapshot("x".into()))
    }
    async fn account_stream(&self, _: &[AssetNameExchange], _: &[InstrumentNameExchange]) -> Result<Self::AccountStream, UnindexedClientError> {
        Ok(futures::stream::empty())
    }
    fn cancel_order(&self, _: OrderRequestCancel<ExchangeId, &InstrumentNameExchange>) -> impl Future<Output = UnindexedOrderResponseCancel> + Send {
        std::future::pending()
    }
    fn open_order(&self, request: OrderRequestOpen<ExchangeId, &InstrumentNameExchange>) -> impl Future<Output = Order<ExchangeId, InstrumentNameExchange, Result<Open, UnindexedOrderError>>> + Send {
        let key = OrderKey { exchange: request.key.exchange, instrument: request.key.instrument.clone(), strategy: request.key.strategy.clone(), cid: request.key.cid.clone() };
        let st = request.state.clone();
        async move {
            // the venue rejects: not enough of the FEE asset, which is not one of the configured assets
            Order { key, side: st.side, price: st.price, quantity: st.quantity, kind: st.kind, time_in_force: st.time_in_force,
                state: Err(UnindexedOrderError::Rejected(ApiError::BalanceInsufficient(AssetNameExchange::new("bnb"), "fee".into()))) }
        }
    }
    async fn fetch_balances(&self) -> Result<Vec<AssetBalance<AssetNameExchange>>, UnindexedClientError> { Ok(vec![]) }
    async fn fetch_open_orders(&self) -> Result<Vec<Order<ExchangeId, InstrumentNameExchange, Open>>, UnindexedClientError> { Ok(vec![]) }
    async fn fetch_trades(&self, _: DateTime<Utc>) -> Result<Vec<Trade<QuoteAsset, InstrumentNameExchange>>, UnindexedClientError> { Ok(vec![]) }
}

#[tokio::test]
async fn rejected_with_unconfigured_asset_is_never_answered() {
    let instruments = IndexedInstruments::builder()
        .add_instrument(Instrument::spot(ExchangeId::BinanceSpot, "b_btc_usdt", "BTCUSDT", Underlying::new("btc", "usdt"), None))
        .build();
    let map = generate_execution_instrument_map(&instruments, ExchangeId::BinanceSpot).unwrap();
    let (req_tx, req_rx) = mpsc_unbounded::<ExecutionRequest>();
    let (resp_tx, mut resp_rx) = mpsc_unbounded::<AccountStreamEvent>();
    let manager = ExecutionManager::new(req_rx.into_stream(), Duration::from_millis(100), resp_tx, Arc::new(C), AccountEventIndexer::new(Arc::new(map)));
    tokio::spawn(manager.run());
    req_tx.send(ExecutionRequest::Open(OrderEvent {
        key: OrderKey { exchange: ExchangeIndex(0), instrument: InstrumentIndex(0), strategy: StrategyId::new("s"), cid: ClientOrderId::new("cid-A") },
        state: RequestOpen { side: Side::Buy, price: Decimal::from(100), quantity: Decimal::ONE, kind: OrderKind::Limit, time_in_force: TimeInForce::GoodUntilCancelled { post_only: false } },
    })).unwrap();
    tokio::time::sleep(Duration::from_millis(600)).await; // six request timeouts
    let got = resp_rx.rx.try_recv();
    println!("EVENTS AFTER 6 x TIMEOUT: {got:?}");
    assert!(got.is_ok(), "request was answered neither by the client's rejection nor by a timeout failure");
}
