#!/bin/sh
# usage: keep_seed.sh <seed id e.g. C14_1> <Cxx> "<what I ran / verdict>" "<signature that caught it or MISSED>"
set -e
S=$1; P=$2; RAN=$3; SIG=$4
D=/verif/seeded/$S
mkdir -p $D
cp /tmp/seed_$S/out/patch.diff $D/patch.diff
cp /tmp/seed_$S/out/demo.rs $D/demo.rs
python3 - "$S" "$P" "$RAN" "$SIG" <<'PY'
import json,sys
s,p,ran,sig=sys.argv[1:5]
try: m=json.load(open(f'/tmp/seed_{s}/out/meta.json'))
except Exception as e: m={"note":"agent meta.json unreadable: %s"%e}
out={"property":p,"seed_id":s,
     "breaks":m.get("summary"),
     "sites":m.get("sites"),
     "needs_to_manifest":m.get("needs_to_manifest"),
     "author":"independent sub-agent given only the property text and a scratch worktree",
     "agent_reported":{k:m.get(k) for k in ("existing_tests_run","demo_with_change","demo_without_change")},
     "confirmed_by_me":ran,
     "check_result":sig}
json.dump(out,open(f'/verif/seeded/{s}/meta.json','w'),indent=1)
PY
git -C /repo worktree remove --force /tmp/seed_$S/repo 2>/dev/null || true
rm -rf /tmp/seed_$S
echo kept $D
