#!/usr/bin/env python3
"""Regenerates /verif/MANIFEST.json from the table below (one row per claimed property)."""
import json, os

BASELINE = ("cd /repo && cargo nextest run --workspace --no-fail-fast --test-threads 8 --offline "
            "|| cargo test --workspace --no-fail-fast --offline")

# id -> (level, engine, technique, level text, level note, design ref)
CLAIMED = {
  "C01": ("model_checking", "E-BFS",
          "explicit-state BFS to fixpoint over the real Orders / EngineState order-tracking code",
          "Every reachable order-tracking state for 2-3 concurrent client order ids (all 10 exchange-consistent fill timelines per id) is enumerated to fixpoint, on the Orders table directly and through EngineState::update_from_account / the in-flight recorder over 3 instruments on 2 exchanges; every transition executes the real code and is compared with the allowed-successor set the statement gives for (tracked state, input); all inputs (duplicates, stale, out-of-order, full snapshots) are offered in every state.",
          "Unique client order ids; exchange reports of one order follow a timeline with non-decreasing fill level (late/duplicate/out-of-order delivery unrestricted); timestamps in {1,2,3}, fill levels in {0, half, full}.",
          "DESIGN.md §3 C01"),
  "C09": ("model_checking", "E-BFS",
          "explicit-state BFS to fixpoint over the real EngineState::update_from_account / update_from_market",
          "All reachable (held value, greatest-delivered-timestamp monitor) states of balances, open-order details, top of book and last traded price are enumerated to fixpoint for several item groupings (two exchanges, two instruments); every transition delivers one timestamped message (or a full account snapshot, or a cancel-in-flight mark) to the real engine state; after every step each held item must carry the greatest timestamp delivered so far with a value delivered with it, and unnamed items must be bit-identical.",
          "Timestamps in {1,2,3}, two values per item; L1 events carry last_update_time == time_exchange; order reports keep remaining quantity > 0 (terminal reports are C01's).",
          "DESIGN.md §3 C09"),
  "C14": ("model_checking", "E-BFS",
          "explicit-state BFS to fixpoint over the real Engine::process",
          "All reachable connectivity states for 1, 2 and 3 exchanges are enumerated to fixpoint; every transition is an execution of the real Engine::process compared with the statement's flag model (global iff all links healthy, exactly the addressed link flips, on_disconnect exactly once per notice, audit output).",
          "Connectivity behaviour depends only on the connectivity flags (state is rebuilt from them per transition); at most 3 exchanges.",
          "DESIGN.md §3 C14"),
}

NOT_YET = {}

def main():
    props = [json.loads(l) for l in open('/verif/properties.jsonl')]
    checks, na = [], []
    for p in props:
        pid = p['id']
        if pid in CLAIMED:
            level, engine, tech, text, note, ref = CLAIMED[pid]
            checks.append({
                "property_id": pid,
                "quick_cmd": f"./check {pid} --tier quick",
                "thorough_cmd": f"./check {pid} --tier thorough",
                "evidence_file": f"/verif/evidence/{pid}.json",
                "replay_cmd_template": f"./check {pid} --replay {{path}}",
                "engine": engine,
                "level_claimed": {"category": level, "text": text, "design_ref": ref},
                "level_note": note,
                "technique": tech,
            })
        else:
            na.append({"property_id": pid,
                       "reason": NOT_YET.get(pid, "check not built yet in this round (model checking applies; see DESIGN.md §3) - not claimed until its harness exists")})
    manifest = {
        "version": 1,
        "setup_cmd": "cd /verif/harness && CARGO_NET_OFFLINE=true cargo build --release --offline",
        "hooks": {
            "guard": "barter_rs_barter_rs_verif",
            "enable": "no hooks are needed: every seam used is a public type parameter/constructor of barter-rs; the harness crate /verif/harness depends on /repo's crates by path, so every check rebuilds from /repo's working tree",
            "baseline_off_cmd": BASELINE,
            "source_commits": [],
            "add_only": True,
        },
        "engines": [
            {"name": "E-BFS", "path": "harness/src/explore/bfs.rs", "kind_free_text": "explicit-state breadth-first search; every transition executes the real implementation; reference model rides in the state",
             "serves_properties": [c["property_id"] for c in checks if c["engine"] == "E-BFS"]},
            {"name": "E-SEQ", "path": "harness/src/explore/seq.rs", "kind_free_text": "bounded-exhaustive enumeration of input sequences / configurations with prefix sharing",
             "serves_properties": [c["property_id"] for c in checks if c["engine"] == "E-SEQ"]},
            {"name": "E-ENV", "path": "harness/src/explore/choice.rs + env.rs", "kind_free_text": "stateless choice-sequence exploration of real futures on a paused single-thread tokio runtime (harness owns waker, channels, clock)",
             "serves_properties": [c["property_id"] for c in checks if c["engine"] == "E-ENV"]},
        ],
        "checks": checks,
        "not_applicable": na,
        "notes": "Driver: ./check Cxx --tier quick|thorough (exit 0 held / 1 VIOLATION / 2 machinery failure). Known findings: /verif/known_findings.json.",
    }
    json.dump(manifest, open('/verif/MANIFEST.json', 'w'), indent=1)
    print(f"claimed={len(checks)} not_applicable={len(na)}")

if __name__ == '__main__':
    main()
