#!/usr/bin/env python3
"""Regenerates /verif/MANIFEST.json from the table below (one row per claimed property)."""
import json, os

BASELINE = ("cd /repo && cargo nextest run --workspace --no-fail-fast --test-threads 8 --offline "
            "|| cargo test --workspace --no-fail-fast --offline")

HOOK_COMMIT = "3c473f8"

# id -> (level, engine, technique, level text, level note, design ref)
CLAIMED = {
  "C01": ("model_checking", "E-BFS",
          "explicit-state BFS to fixpoint over the real Orders / EngineState order-tracking code",
          "Every reachable order-tracking state for 2-3 concurrent client order ids (all 10 exchange-consistent fill timelines per id) is enumerated to fixpoint, on the Orders table directly and through EngineState::update_from_account / the in-flight recorder over 3 instruments on 2 exchanges; every transition executes the real code and is compared with the allowed-successor set the statement gives for (tracked state, input); all inputs (duplicates, stale, out-of-order, full snapshots) are offered in every state. Hardened: sub-second instants, fractional fills, three failure classes, batch recorders, snapshots spanning instruments, and the same alphabet through Engine::process.",
          "Unique client order ids; exchange reports of one order follow a timeline with non-decreasing fill level (late/duplicate/out-of-order delivery unrestricted); timestamps in {1,2,3}, fill levels in {0, half, full}.",
          "DESIGN.md §3 C01"),
  "C02": ("exploration", "E-SEQ",
          "bounded-exhaustive fill sequences through PositionManager::update_from_trade and Engine::process against a cash-flow ledger",
          "All sequences of fills (side x qty{1,2,3} x price{90,100,110} x fee{0,0.3}; five magnitude variants; a narrow alphabet going deeper) up to length 4-6 (quick) / 5-7 (thorough), on the PositionManager directly and through the real Engine::process (closed record taken from the audit); after every fill: side/size == sign/|net|, closed record iff net reaches or crosses zero, pro-rata fee on a flip remainder, realised-PnL and fee conservation against the ledger, every fill id on exactly the positions it affected.",
          "'Up to decimal rounding' = per fill the larger of 1e-18 of the gross cash flow so far and 1e-12 of the gross cash flow of the position the fill acts on (size, closed-record and id rules are exact); any cost-basis method satisfying the conservation law is accepted.",
          "DESIGN.md §3 C02"),
  "C03": ("model_checking", "E-BFS",
          "depth-bounded explicit-state BFS over the real Engine::process with scripted strategy/risk/links",
          "Every engine event history up to the tier's depth over (market/account items, trading-state toggles, the four commands, shutdown) x strategy output menu x risk verdict x per-step link fault mode (healthy / closed / missing / unhealthy / out-of-range index) is executed through the real Engine::process; after every tick: sent => delivered exactly once on the named link and in flight; failed => error class per link kind, no delivery, no mark, fatal => terminal; refused => reported, not delivered, no mark; disabled => nothing strategy-generated is issued while commands and state updates still happen (differential against an enabled idle engine); enabling event generates. Hardened: close-position strategies that cancel, real UnboundedTx links, reconnect / snapshot / cancel-response probe events, cid reuse across instruments, one-exchange configurations, exactly-once across ticks.",
          "2-3 exchanges, at most 2-3 simultaneously tracked orders from an id pool, history depth 4 (quick) / 4-6 (thorough); strategy/risk are environment menus; reconnect notices and balance snapshots are not in this alphabet (C14/C09 cover them).",
          "DESIGN.md §3 C03"),
  "C04": ("exploration", "E-SEQ",
          "exhaustive configuration sweep of index<->name translation + manual-poll ExecutionManager runs",
          "For every insertion order of every subset (<=5 quick / <=8 thorough) of an 8-definition menu over 3 exchanges with shared asset names: every exchange's ExecutionInstrumentMap x every global index (own, foreign, out of range) and every pooled name; AccountEventIndexer outbound and all inbound event kinds; the request a recording ExecutionClient receives behind the real ExecutionManager::run (paused runtime, manual polling); account stream indexing; application through EngineState::update_from_account. Ground truth is computed from the definitions. Hardened: two requests per manager with cid reuse, a case/prefix-colliding menu, disagreeing exchange ids inside snapshots, re-ordered client snapshots, full snapshots applied to engine state.",
          "One 8-definition menu over BinanceSpot/Kraken/Okx; instrument internal names unique; an exchange names an asset one way; manager layer uses immediate replies only (timeouts are C07).",
          "DESIGN.md §3 C04"),
  "C05": ("model_checking", "E-BFS",
          "explicit-state BFS to fixpoint over the real OrderBook::update + exhaustive OrderBookL2Manager delivery sequences",
          "Every reachable book over 3-4 prices per side and amounts {0,5,7} is enumerated to fixpoint; every transition clones the real OrderBook and applies one snapshot/update event built from an unsorted level list (repeated prices, zero amounts, deletes of absent levels, several decimal scales); levels, strict ordering, sequence, mid / volume-weighted mid price and depth-limited snapshots are compared with two price->amount maps fed the list in order. A second layer drives the real OrderBookL2Manager::run (manual polling) over all delivery sequences <=4/5 for two instruments; a third sweeps long updates (2..40/100 levels) with one price listed twice at every pair of positions.",
          "Snapshots are well-formed (distinct prices, positive amounts); time_engine not judged; both volume weightings of the weighted mid price accepted.",
          "DESIGN.md §3 C05"),
  "C06": ("exploration", "E-SEQ",
          "bounded-exhaustive delivery sequences through the real Binance spot/futures L2 transformers against a venue-rule monitor",
          "For simulated venue evolutions (5-6 atomic changes, every composition into updates, every snapshot point, two instruments on one connection, consecutive and stride-2 ids): every delivery sequence of length <=6 (quick) / <=7 (thorough) of the resulting updates (drop, duplicate, swap, replay, early/late start) goes through the real transformers obtained from ExchangeTransformer::init (venue JSON through the real deserialisers), every Ok event is applied to a real OrderBook, the connection stops at the first terminal error; the admitted updates must form the published chain, the local book must equal the venue book at its reported sequence, every break must be a terminal error, in-order delivery after older messages must never error. Hardened: level-less updates, ids across 2^32, a loopback layer running the real ExchangeWsStream::init (spot and futures) and init_market_stream re-initialisation against a scripted venue (cfg hook).",
          "Fixed venue scripts; the loopback layers need local TCP sockets (a loopback layer that cannot run is exit 2, never a verdict).",
          "DESIGN.md §3 C06"),
  "C07": ("exploration", "E-ENV",
          "exhaustive schedule enumeration of the real ExecutionManager::run under virtual time (manual polling, scripted client)",
          "All schedules of hand-over / answer (Ok, Err, fully filled) / clock-advance choices for batches of up to 3 (quick) / 4 (thorough, <=4 deviations) open and cancel requests with answers before, exactly at and after the timeout or never, in every arrival order, ended by shutdown or channel close; after a +2T horizon every accepted request must have exactly one answer of the class the statement prescribes (either at the exact deadline), correctly attributed; no event for unrequested ids. Hardened: repeated (kind, cid) requests, 1..100 (255) requests outstanding together, the whole ExecutionBuilder::add_live path, partial fills, long timeouts.",
          "select!'s per-iteration random start branch is not enumerated (it can only permute the order of simultaneously ready branches; the oracle ignores order); instants from a fixed grid around T; n=4 bounded to 4 deviations.",
          "DESIGN.md §3 C07"),
  "C08": ("exploration", "E-SEQ",
          "bounded-exhaustive request sequences on the real MockExchange + schedule enumeration through MockExecution/MockExchange::run",
          "All sequences of <=3 (quick) / <=4 (thorough) order requests (side x price x quantity x 3 asset-sharing instruments, limit and unknown-instrument orders) against 54/128 balance-fee configurations on MockExchange::open_order with the ledger read back after every step; plus all operation/latency schedules of up to 3/4 client operations through the real MockExecution client and MockExchange::run on a paused runtime (responses, notifications, queries) against a ledger model written from the statement. Hardened: the ExecutionBuilder::add_mock path, time-in-force variants, 150-600 order runs with full trade queries, many-decimal amounts.",
          "The statement speaks of market orders: a limit order on a listed instrument may be rejected without effect or handled exactly like a market order at its limit price; unknown instruments must be rejected; the ledger model follows the statement (spent asset debited, nothing else changes); ids need only be fresh.",
          "DESIGN.md §3 C08"),
  "C10": ("exploration", "E-SEQ",
          "bounded-exhaustive engine event histories through the real sync/async audit runners, a twin engine and the real StateReplicaManager, plus derived fault streams",
          "Every engine-event history up to length 3-4 (quick) / 4-5 (thorough) over a 40-symbol alphabet (market, account, reconnect notices, trading-state updates, the four commands, shutdown) in 5-7 engine worlds (quiet / order-issuing strategy, healthy / terminated / missing / unhealthy links, different starting sequences) is run from scratch through sync_run_with_audit, async_run_with_audit (manual polling, all batching schedules up to length 2/3) and a twin engine stepped with process_with_audit; one record per event carrying it, consecutive sequences after the snapshot, final record kind; the recorded stream drives the real StateReplicaManager tick by tick (replica == engine on every component, orders modulo in-flight markers) and every drop / duplicate / swap fault stream (never applied silently). A deduplicating BFS to depth 4/6 extends the reach. Hardened: the real SystemBuild::init path in both feed modes with three endings; reports at equal exchange times; a report whose terms differ from the request (open known finding).",
          "Default instrument / global data types; orders compared after projecting in-flight markers as DESIGN §3 C10 says; one fault per fault stream.",
          "DESIGN.md §3 C10"),
  "C11": ("exploration", "E-SEQ",
          "exhaustive enumeration of instrument multisets x insertion orders through the real index builder and derived tables",
          "Every sequence with repetition of length <=4 (quick) / <=6 (thorough) and every permutation of larger subsets of an 8-definition menu goes through IndexedInstrumentsBuilder; dense keys, uniqueness, completeness, inverse lookups, per-role asset/exchange resolution and order independence are checked against the definitions; all 255 subsets through EngineStateBuilder (asset/instrument/connectivity tables, account snapshots) and every subset x link assignment through ExecutionBuilder::build polled by hand.",
          "One 8-definition menu (spot/perpetual/future/option, settlement-only and unit-only assets, shared asset names); name_internal unique per distinct instrument.",
          "DESIGN.md §3 C11"),
  "C12": ("exploration", "E-ENV",
          "exhaustive connection-script / backoff-policy / timing enumeration of the real reconnecting stream composition under virtual time + all interleavings of merge and forward_to",
          "Every connection script (attempt = fail | ok(word over item / recoverable error / terminal error)) within the tier's blocks (112k quick / 3.3M thorough scripts) x 4-6 backoff policies x 3-5 timings x 5 observation modes runs the real init_reconnecting_stream -> with_reconnect_backoff -> with_termination_on_error -> with_reconnection_events (+ error handler, + forward_to, + the merged composition ExecutionManager::init uses) polled by hand on a paused runtime with every output stamped; delivery, single notice per drop, handler calls, exact backoff waits, reset after success and never-ends are compared with the script. merge and forward_to: all interleavings of push/close/poll up to depth 9/11 and 10/12. Hardened: hundreds of consecutive failures / connections / symbols, the real init_market_stream for a scripted venue, wake-up of pending consumers in merge and forward_to.",
          "Init latency and pacing uniform within a case; every connection ends; policies with initial <= max and multiplier >= 1.",
          "DESIGN.md §3 C12"),
  "C13": ("exploration", "E-SEQ",
          "exhaustive sweep of (connector, kind) x instrument flavour x instrument sets x synthesised venue payloads through the real mapper and transformers",
          "For all 21 (connector, kind) arms of DynamicStreams::init and 4 instrument flavours: every ordered instrument set up to the tier's size from per-venue menus goes through the real WebSocketSubMapper::map, the connector's real transformer (ExchangeTransformer::init) and serde_json + transform for 2-3 payloads per market of the venue universe (subscribed or not); subscribed => exactly the payload's events with the subscribed key, the connector id and the payload's values; unsubscribed => unidentifiable error, never an event. Bitfinex runs its real subscription validator against a scripted venue on loopback. Hardened: subscriptions indexed by the real indexer, the DynamicStreams validation front end, L1 update time, non-dyadic values, the DataKind conversion, scaled option strikes, expiry instants late / early in the UTC day.",
          "Payload templates follow the venue formats quoted in the connectors' doc comments / test fixtures; name_exchange is the venue's spelling; Gate.io options payload modelled on futures; loopback TCP available.",
          "DESIGN.md §3 C13"),
  "C15": ("exploration", "E-SEQ",
          "bounded-exhaustive interleavings of fills and market events through the real Engine::process",
          "All histories up to length 4-6 (quick) / 4-7 (thorough) over fills, public trades and two-sided L1 updates with newer / equal / older timestamps, liquidations and empty L1 on two driven instruments (indices 1,2 of 3, two exchanges) go through Engine::process; after every event: a priced event newer than everything seen => pnl_unrealised == documented estimate at price(); a fill leaving a position => estimate at the fill price; events without a new price => unchanged or estimate at price(); other instrument untouched.",
          "Single magnitude; time classes relative to the greatest timestamp the instrument has seen.",
          "DESIGN.md §3 C15"),
  "C16": ("exploration", "E-SEQ",
          "bounded-exhaustive sequences of closed positions / fill round-trips through TearSheetGenerator and the engine's trading summary",
          "All sequences (<=4/<=5) of 24 closed-position symbols into TearSheetGenerator and (<=3/<=4) of 36 fill/balance symbols through EngineState::update_from_account over 3 instruments / 2 exchanges; after every prefix pnl, win rate and profit factor are recomputed in batch from the positions (documented conventions accepted), and every trading-summary entry must equal the sheet of a fresh generator fed only that instrument's/asset's history. Hardened: incremental TradingSummaryGenerator updates with times in any order and both key types, in-place generation, full snapshots and seeded balances, printed tables, 150-600 position walks.",
          "Period-scaled ratios (Sharpe, Sortino, Calmar, rate of return) are not compared (the statement does not fix the window).",
          "DESIGN.md §3 C16"),
  "C17": ("exploration", "E-SEQ",
          "bounded-exhaustive value sequences through DataSetSummary against exact big-integer batch statistics",
          "All sequences of length <=5 (quick) / <=7 (thorough) over a 9-value wide-magnitude alphabet and a 6-value near-equal alphabet; after every update count/range exact, sum/mean/variance/std-dev within a magnitude-scaled decimal tolerance of the exact batch value, variance >= 0, low <= mean <= high; every order of every multiset is in the enumeration.",
          "Values avoid Decimal overflow; tolerance K*1e-24 (K = data scale).",
          "DESIGN.md §3 C17"),
  "C18": ("exploration", "E-SEQ",
          "bounded-exhaustive timed value curves through the drawdown generators against a record-high decomposition",
          "All curves of length <=5/7 (quick) / <=7/9 (thorough) over small value alphabets with two gap sizes, first value positive; each completed / current drawdown is compared with the running-maximum decomposition; Max and Mean generators against the drawdowns actually reported; the same through AssetState balances and TearSheetGenerator cumulative PnL.",
          "Positive running maxima; end time of an in-progress drawdown not demanded.",
          "DESIGN.md §3 C18"),
  "C19": ("exploration", "E-SEQ",
          "exhaustive sweep of reached engine states x 55 filters x command trees through the real Engine::process",
          "For 2,040 (quick) / 40,176 (thorough) engine configurations over 4 instruments / 2 exchanges / 3 underlyings - reached by feeding events (order requests, snapshots, cancels, fills, prices) - every filter (none, all subsets of exchanges / instruments / underlyings, decoys) and every 2-command tree of CancelOrders / ClosePositions: delivered requests, in-flight marks and the bit-identity of everything outside the filter are compared with a definition-level scope predicate. Hardened: link faults on the first command, filters naming an entry twice, non-integer sizes, commands with trading enabled.",
          "Links healthy; only side and quantity of close orders are demanded (as the statement says); command trees of length 2.",
          "DESIGN.md §3 C19"),
  "C20": ("exploration", "E-ENV",
          "exhaustive sweep of datasets x pacings x strategy assignments through the real backtest()/run_backtests() on a paused single-thread runtime",
          "Every dataset pattern of n<=3 (quick) / <=4 (thorough) events over 2 instruments x every pacing from a tie-free delay menu x every buy@b/sell@s or idle strategy x N in {1,2,3} concurrent members (ordered assignments) runs the real backtest machinery; completeness/order of the engine's market log, isolation as a differential oracle (member in batch == same member alone: fills, positions, balances, realised PnL) and the own-summary rule are checked. Hardened: per-member pacing with coarse fill times, 6-hour stalls, Reconnecting entries and dataset shapes (equal / earlier timestamps, duplicates), lengths to 2^16 (2^17), batches of up to 64 members.",
          "OS-thread interleavings of a multi-thread runtime are not enumerated (auxiliary smoke run only, reported separately); timestamps excluded (HistoricalClock reads the wall clock); one mocked exchange.",
          "DESIGN.md §3 C20"),
  "C09": ("model_checking", "E-BFS",
          "explicit-state BFS to fixpoint over the real EngineState::update_from_account / update_from_market",
          "All reachable (held value, greatest-delivered-timestamp monitor) states of balances, open-order details, top of book and last traded price are enumerated to fixpoint for several item groupings (two exchanges, two instruments); every transition delivers one timestamped message (or a full account snapshot, or a cancel-in-flight mark) to the real engine state; after every step each held item must carry the greatest timestamp delivered so far with a value delivered with it, and unnamed items must be bit-identical.",
          "Timestamps in {1,2,3}, two values per item; L1 events carry last_update_time == time_exchange; order reports keep remaining quantity > 0 (terminal reports are C01's).",
          "DESIGN.md §3 C09"),
  "C14": ("model_checking", "E-BFS",
          "explicit-state BFS to fixpoint over the real Engine::process",
          "All reachable connectivity states for 1, 2 and 3 exchanges are enumerated to fixpoint; every transition is an execution of the real Engine::process compared with the statement's flag model (global iff all links healthy, exactly the addressed link flips, on_disconnect exactly once per notice, audit output). Hardened: exchange sets whose id order differs from name order, exchanges without execution link, 17 event kinds, a persistent layer on one engine.",
          "Connectivity behaviour depends only on the connectivity flags (state is rebuilt from them per transition); at most 3 exchanges.",
          "DESIGN.md §3 C14"),
}

# second hardening round + later seeds: one more sentence per level text (details: DESIGN.md 8.6)
ROUND2 = {
  "C01": "Round 2: nanosecond instants, 1e-12 remainders, every error class of failed opens / cancels, a cid shared by two instruments, market / IOC orders, and a scripted long-input layer (1100 / 4200 concurrent orders; batch recorders and full snapshots of every size to 130 and around powers of two and ten) through Orders, EngineState and Engine::process.",
  "C02": "Round 2: dust quantities (1e-24), the engine layer with trading enabled and a strategy proposing orders on a fill (closed record next to algo output / an unrecoverable algo error), 1100 / 4200 fill histories.",
  "C03": "Round 2: opens re-using a tracked cid, commands next to a refuse-all risk manager, position-exit ticks, cancels without exchange order id, funded roots (balances known), batches of 24 opens.",
  "C04": "Round 2: near-miss names for every menu name, all 42 exchange ids as foreign ids on every inbound path, a 310-instrument menu.",
  "C05": "Round 2: prices differing only beyond f64 precision, amount 1e-28, one update of n levels on a book of n levels (n to 1100 / 10001), 2600 / 21000 deliveries through the real manager (one by one and all queued), big books on both sides.",
  "C06": "Round 2: two instruments on one connection through the real ExchangeWsStream::init; a re-initialisation whose fresh snapshot drops a level of the stale book; a second sweep in which the first b messages of every delivery go through the real process_buffered_events as one batch.",
  "C07": "Round 2: per-exchange timeouts through the builder, timeouts of 2 ms and 36 h, connectivity-class client errors, an unlinked exchange before the linked ones, a client rejection naming an unconfigured asset (genuine defect found and fixed).",
  "C08": "Round 2: every request carrying the same client order id, balances 1e-14 short of exactly enough, trade queries whose since lies inside the history, upper-case exchange asset names, a third tracked exchange re-using a market name; clients that abandon their open-order call.",
  "C09": "Round 2: instants a nanosecond past a whole second and on the next day with an earlier time of day, link-health flags in the BFS state, full snapshots naming two items of one kind, an instrument listed without orders, liquidation / candle events, the empty top of book.",
  "C10": "Round 2: a report stamped between whole seconds, 320 / 1000-event cyclic histories through both runners (every shorter length too; one world starting at sequence 2^32-40), the real SystemBuilder path in both feed modes.",
  "C11": "Round 2: a second extended menu with a future / option settled in a third asset and a unit-only asset on a future.",
  "C12": "Round 2: the real ExecutionManager::init account stream over a scripted client, Streams::builder() / builder_multi() (two subscribe calls for one exchange), waits above 2^32 ms, two DynamicStreams::init arms (Binance spot / futures trades) against a loopback venue through the cfg hook.",
  "C13": "Round 2: every payload also through the real ExchangeStream + WebSocketParser and through process_buffered_events; subscribe requests judged against a model of each venue's request format; one-sided L1; liquidation time and book engine time; BitMEX foreignNotional != size.",
  "C14": "Round 2: four and five exchanges, the L2 update market kind.",
  "C15": "Round 2: events that are neither fills nor market data must leave every estimate alone; moves of 1e-8; market data received an hour late / a second early.",
  "C16": "Round 2: the printed profit-factor row, returns beyond -100 % and of +-1e-10, a 1100 / 4200 position walk.",
  "C17": "Round 2: a value with 27 fractional digits, 2100 / 8400 value sequences judged against exact big-integer running sums, outliers first arriving after a long warm-up.",
  "C18": "Round 2: declines of 1e-9 of the peak with 21 decimals, mean duration expected from time_end - time_start, points 40 days apart, history-dependent zig-zag curves reporting 6 / 8 drawdowns.",
  "C19": "Round 2: 1100 / 4200 orders on one instrument, worlds of 1..64 / 200 instruments, a three-exchange world, commands through a real System handle, the library's DefaultStrategy, all streams Reconnecting, a refuse-all risk manager, cids shared between instruments.",
  "C20": "Round 2: datasets with events of a second exchange without execution, market entries compared with exchange time / exchange / side / amount, two instrument layouts.",
}

NOT_YET = {}

def main():
    props = [json.loads(l) for l in open('/verif/properties.jsonl')]
    checks, na = [], []
    for p in props:
        pid = p['id']
        if pid in CLAIMED:
            level, engine, tech, text, note, ref = CLAIMED[pid]
            if pid in ROUND2:
                text = text.rstrip() + " " + ROUND2[pid]
            checks.append({
                "property_id": pid,
                "quick_cmd": f"./check {pid} --tier quick",
                "thorough_cmd": f"./check {pid} --tier thorough",
                "evidence_file": f"/verif/evidence/{pid}.json",
                "replay_cmd_template": f"./check {pid} --replay {{path}}",
                "engine": engine,
                "level_claimed": {"category": level, "text": text, "design_ref": ref},
                "level_note": note,
                "technique": tech,
            })
        else:
            na.append({"property_id": pid,
                       "reason": NOT_YET.get(pid, "check not built yet in this round (model checking applies; see DESIGN.md §3) - not claimed until its harness exists")})
    manifest = {
        "version": 1,
        "setup_cmd": "cd /verif/harness && CARGO_NET_OFFLINE=true cargo build --release --offline",
        "hooks": {
            "guard": "barter_rs_barter_rs_verif",
            "enable": "harness/.cargo/config.toml sets rustflags = [\"--cfg\", \"barter_rs_barter_rs_verif\"], so every build of the harness crate (path dependencies on /repo's crates => rebuilt from /repo's working tree) compiles barter-data with the one hook on; only C06's stream-initialisation layers and C12's DynamicStreams layer use it (Binance WebSocket URL override read from env BARTER_VERIF_BINANCE_WS_URL). Every other seam is a public type parameter / constructor of barter-rs.",
            "baseline_off_cmd": BASELINE,
            "source_commits": [HOOK_COMMIT],
            "add_only": True,
        },
        "engines": [
            {"name": "E-BFS", "path": "harness/src/explore/bfs.rs", "kind_free_text": "explicit-state breadth-first search; every transition executes the real implementation; reference model rides in the state",
             "serves_properties": [c["property_id"] for c in checks if c["engine"] == "E-BFS"]},
            {"name": "E-SEQ", "path": "harness/src/explore/seq.rs", "kind_free_text": "bounded-exhaustive enumeration of input sequences / configurations with prefix sharing",
             "serves_properties": [c["property_id"] for c in checks if c["engine"] == "E-SEQ"]},
            {"name": "E-ENV", "path": "harness/src/explore/choice.rs + env.rs", "kind_free_text": "stateless choice-sequence exploration of real futures on a paused single-thread tokio runtime (harness owns waker, channels, clock)",
             "serves_properties": [c["property_id"] for c in checks if c["engine"] == "E-ENV"]},
        ],
        "checks": checks,
        "not_applicable": na,
        "notes": "Driver: ./check Cxx --tier quick|thorough (exit 0 held / 1 VIOLATION / 2 machinery failure). Known findings: /verif/known_findings.json.",
    }
    json.dump(manifest, open('/verif/MANIFEST.json', 'w'), indent=1)
    print(f"claimed={len(checks)} not_applicable={len(na)}")

if __name__ == '__main__':
    main()
