#!/bin/sh
# usage: integrate.sh <X> c04 c11 ...  : copy props from /tmp/hw_X/harness and its mutation patches into /verif
X=$1; shift
for c in "$@"; do cp /tmp/hw_$X/harness/src/props/$c.rs /verif/harness/src/props/$c.rs && echo "copied $c.rs ($(wc -l < /verif/harness/src/props/$c.rs) lines)"; done
ls /tmp/hw_$X/out/mutations/ 2>/dev/null
