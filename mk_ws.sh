#!/bin/sh
# usage: mk_ws.sh <name>   -> /tmp/hw_<name>/{repo (git worktree of /repo HEAD), harness (copy), out}
set -e
W=/tmp/hw_$1
rm -rf "$W"; mkdir -p "$W/out"
git -C /repo worktree prune
git -C /repo worktree add --detach "$W/repo" HEAD >/dev/null 2>&1
rsync -a --exclude target --exclude build.log /verif/harness/ "$W/harness/"
sed -i "s#\"/repo/#\"$W/repo/#" "$W/harness/Cargo.toml"
sed -i "s#/verif/harness/target#$W/target#" "$W/harness/.cargo/config.toml"
cp /verif/properties.jsonl /verif/DESIGN.md "$W/"
echo '{"findings": []}' > "$W/out/known_findings.json"
echo "$W"
