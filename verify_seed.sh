#!/bin/sh
# usage: verify_seed.sh <seed_out_dir> <package> <demo_dest_relative_to_repo> [extra packages to test...]
# Confirms in a scratch worktree (/tmp/vfy/repo): demo passes without the patch, fails with it, and the
# existing tests of <package> (+extras) still pass with the patch. Leaves the worktree clean.
set -u
OUT=$1; PKG=$2; DEST=$3; shift 3
W=${VFY_W:-/tmp/vfy}
export CARGO_TARGET_DIR=$W/target CARGO_PROFILE_DEV_DEBUG=0 CARGO_PROFILE_TEST_DEBUG=0 CARGO_INCREMENTAL=0 CARGO_NET_OFFLINE=true
if [ ! -d $W/repo ]; then mkdir -p $W; git -C /repo worktree prune; git -C /repo worktree add --detach $W/repo HEAD >/dev/null 2>&1 || exit 2; fi
cd $W/repo || exit 2
git checkout -q --detach "$(git -C /repo rev-parse HEAD)" 2>/dev/null; git checkout -- . ; git clean -fdq -e target
TESTNAME=$(basename "$DEST" .rs)
mkdir -p "$(dirname "$DEST")"; cp "$OUT/demo.rs" "$DEST" || exit 2
echo "== demo WITHOUT patch (expect pass)"
cargo test --offline -p "$PKG" --test "$TESTNAME" 2>&1 | grep -E "^test result|error(\[|:)|panicked" | head -5
if ! git apply --check "$OUT/patch.diff" 2>/dev/null; then echo "PATCH DOES NOT APPLY"; git checkout -- .; git clean -fdq -e target; exit 1; fi
git apply "$OUT/patch.diff"
echo "== demo WITH patch (expect fail)"
cargo test --offline -p "$PKG" --test "$TESTNAME" 2>&1 | grep -E "^test result|error(\[|:)|panicked" | head -5
rm -f "$DEST"
echo "== existing tests WITH patch (expect pass)"
for p in "$PKG" "$@"; do
  cargo test --offline -p "$p" 2>&1 | grep -E "^test result|FAILED|failed|error(\[|:)" | grep -v "0 passed; 0 failed" | sed "s/^/[$p] /" | head -8
done
git checkout -- . ; git clean -fdq -e target
