#!/bin/sh
# usage: mk_seed.sh Cxx n  -> scratch worktree /tmp/seed_Cxx_n/repo + /tmp/seed_Cxx_n/PROPERTY.md (property text only)
set -e
W=/tmp/seed_$1_$2
rm -rf "$W"; mkdir -p "$W/out"
git -C /repo worktree prune
git -C /repo worktree add --detach "$W/repo" HEAD >/dev/null 2>&1
python3 - "$1" "$W" <<'PY'
import json,sys
pid,w=sys.argv[1:3]
for l in open('/verif/properties.jsonl'):
    p=json.loads(l)
    if p['id']==pid:
        with open(f'{w}/PROPERTY.md','w') as f:
            f.write(f"# Property {p['id']}: {p['title']}\n\n## Statement\n{p['statement']}\n\n## Quantified over\n{p['quantifier']['text']}\n\n## Why the existing tests cannot settle it\n{p['why_tests_cant']}\n\n## Code it is anchored in\n" + "\n".join('- '+x for x in p['anchors']['files']) + "\n\n## Mechanisms meant to make it hold\n" + "\n".join(f"- {m.get('name')} ({m.get('where')})" for m in p['anchors']['mechanism']) + "\n")
PY
echo "$W"
