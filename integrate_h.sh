#!/bin/sh
# usage: integrate_h.sh <X> c07 c08 ... : take hardened modules + their mutation patches from /tmp/hw_<X>
X=$1; shift
for c in "$@"; do
  if ! diff -q /verif/harness/src/props/$c.rs /tmp/hw_$X/harness/src/props/$c.rs >/dev/null; then
    cp /tmp/hw_$X/harness/src/props/$c.rs /verif/harness/src/props/$c.rs && echo "updated $c.rs ($(wc -l < /verif/harness/src/props/$c.rs) lines)"
  else echo "$c.rs unchanged"; fi
done
for p in /tmp/hw_$X/out/mutations/*.patch; do
  [ -f "$p" ] || continue
  b=$(basename $p)
  case $b in *STILL_MISSED*) echo "STILL_MISSED: $b"; cp $p /verif/mutations/still_missed_$b 2>/dev/null; continue;; esac
  if git -C /repo apply --check $p 2>/dev/null; then cp $p /verif/mutations/$b; else echo "NOAPPLY $b"; fi
done
