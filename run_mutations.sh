#!/bin/sh
# Detection demonstration: for every patch mutations/<Cxx>_<name>.patch (optionally filtered by $1 = Cxx)
# apply it to /repo, run the quick check of Cxx, expect exit 1 (VIOLATION), then restore /repo.
# Prints one line per patch: DETECTED / MISSED / NOAPPLY / MACHINERY. Exit 0 iff every patch was DETECTED.
cd /verif || exit 2
if [ -n "$(git -C /repo status --porcelain --untracked-files=no)" ]; then echo "/repo has uncommitted changes; refusing" >&2; exit 2; fi
rc=0
for p in mutations/${1:-C}*.patch; do
  [ -f "$p" ] || continue
  id=$(basename "$p" | cut -d_ -f1)
  if ! git -C /repo apply --check "/verif/$p" 2>/dev/null; then echo "NOAPPLY   $p"; rc=1; continue; fi
  git -C /repo apply "/verif/$p"
  out=$(./check "$id" --tier quick 2>&1); code=$?
  git -C /repo checkout -- . >/dev/null 2>&1
  sig=$(printf '%s\n' "$out" | grep -m1 'signature:' | sed 's/^ *signature: //')
  case $code in
    1) echo "DETECTED  $p  [$sig]";;
    0) echo "MISSED    $p"; rc=1;;
    *) echo "MACHINERY $p (exit $code)"; printf '%s\n' "$out" | tail -5; rc=1;;
  esac
done
exit $rc
