#!/bin/sh
# Detection demonstration: for every patch mutations/<Cxx>_<name>.patch (optionally filtered by $1 = prefix)
# apply it to the repo, run the quick check of Cxx, expect exit 1 (VIOLATION), then restore the repo.
# Prints one line per patch: DETECTED / MISSED / NOAPPLY / MACHINERY. Exit 0 iff every patch was DETECTED.
# By default works on /repo with /verif/check. With MUT_WS=/tmp/hw_M (a scratch workspace made by mk_ws.sh)
# it works on $MUT_WS/repo and $MUT_WS/harness instead, leaving /repo alone.
cd /verif || exit 2
if [ -n "${MUT_WS:-}" ]; then
  R=$MUT_WS/repo
  runcheck() { (cd $MUT_WS/harness && cargo build --release --offline -q 2>$MUT_WS/build.log) || { tail -20 $MUT_WS/build.log; return 2; }; VERIF_ROOT=$MUT_WS/out $MUT_WS/target/release/vcheck "$@"; }
else
  R=/repo
  runcheck() { ./check "$@"; }
fi
if [ -n "$(git -C $R status --porcelain --untracked-files=no)" ]; then echo "$R has uncommitted changes; refusing" >&2; exit 2; fi
rc=0
for p in mutations/${1:-C}*.patch; do
  [ -f "$p" ] || continue
  id=$(basename "$p" | cut -d_ -f1)
  if ! git -C $R apply --check "/verif/$p" 2>/dev/null; then echo "NOAPPLY   $p"; rc=1; continue; fi
  git -C $R apply "/verif/$p"
  out=$(runcheck "$id" --tier quick 2>&1); code=$?
  git -C $R checkout -- . >/dev/null 2>&1
  sig=$(printf '%s\n' "$out" | grep -m1 'signature:' | sed 's/^ *signature: //')
  case $code in
    1) echo "DETECTED  $p  [$sig]";;
    0) echo "MISSED    $p"; rc=1;;
    *) echo "MACHINERY $p (exit $code)"; printf '%s\n' "$out" | tail -5; rc=1;;
  esac
done
exit $rc
