#!/usr/bin/env python3
"""Prints the as-built table (markdown) from MANIFEST.json + evidence/*.json (quick tier numbers)."""
import json
m=json.load(open('/verif/MANIFEST.json'))
rows=[]
for c in m['checks']:
    pid=c['property_id']
    e=json.load(open(f'/verif/evidence/{pid}.json'))
    cov=e['coverage']
    if e['level']=='model_checking' and 'states' in cov:
        n=f"{cov['states']:,} states / {cov['transitions']:,} transitions" + (", fixpoint" if cov.get('fixpoint_reached') else f", depth {cov.get('max_depth')}")
    else:
        n=f"{cov.get('evaluations',0):,} executions / {cov.get('distinct_nontrivial',0):,} distinct outcomes"
    rows.append(f"| {pid} | {c['engine']} | {e['level']} | {n} | {e['wall_s']:.0f} s |")
print("| Property | Engine | Evidence level | Quick tier, measured on this tree | Wall (loaded box) |\n|---|---|---|---|---|")
print("\n".join(rows))
