#!/usr/bin/env python3
"""Prints the as-built table (markdown) from MANIFEST.json + evidence/*.json (quick tier) and, if given, a directory
with the evidence files of a thorough run (<dir>/Cxx.evidence.json)."""
import json, sys, os
m=json.load(open('/verif/MANIFEST.json'))
tdir=sys.argv[1] if len(sys.argv)>1 else None
def num(e):
    cov=e['coverage']
    if e['level']=='model_checking' and 'states' in cov:
        return f"{cov['states']:,} states / {cov['transitions']:,} transitions" + (", fixpoint" if cov.get('fixpoint_reached') else f", depth {cov.get('max_depth')}")
    return f"{cov.get('evaluations',0):,} executions / {cov.get('distinct_nontrivial',0):,} distinct outcomes"
rows=[]
for c in m['checks']:
    pid=c['property_id']
    e=json.load(open(f'/verif/evidence/{pid}.json'))
    t=""
    if tdir and os.path.exists(f'{tdir}/{pid}.evidence.json'):
        te=json.load(open(f'{tdir}/{pid}.evidence.json'))
        t=f"{num(te)} ({te['wall_s']:.0f} s)"
    rows.append(f"| {pid} | {c['engine']} | {e['level']} | {num(e)} ({e['wall_s']:.0f} s) | {t} |")
print("| Property | Engine | Evidence level | Quick tier (wall) | Thorough tier (wall) |\n|---|---|---|---|---|")
print("\n".join(rows))
